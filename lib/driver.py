#!/usr/bin/env python3
"""
Driver for the contract-based checks of Nuhvi/mainline (see /verif/DESIGN.md sections 3 and 4).

  ./check <ID> [--tier quick|thorough] [--only SUBSTR] [--keep] [--show-splice] [--replay PATH]

exit 0  every obligation discharged, every bounded check passed, every cover reached
exit 1  an obligation was decided false: prints `VIOLATION property=<ID> replay=<path>`
exit 2  undecided (lost anchor, compile error, timeout, memory cap, unwinding, model bound, ...):
        prints `UNDECIDED property=<ID> reason=...`; never a VIOLATION line.

Python standard library only.
"""
import concurrent.futures as cf
import json
import os
import re
import resource
import shutil
import signal
import subprocess
import sys
import time

VERIF = "/verif"
REPO = os.environ.get("VERIF_REPO", "/repo")  # seed testing points this at a scratch worktree; checks registered in MANIFEST use /repo
OUT = os.environ.get("VERIF_OUT", VERIF)  # where evidence/, replays/, logs/ are written (seed testing: a scratch dir)
KANI_FLAGS = ["-Z", "function-contracts", "-Z", "stubbing", "-Z", "unstable-options", "-Z", "concrete-playback"]


def log(*a):
    print(*a, flush=True)


# --------------------------------------------------------------------------------------------
# scratch copy + splice
# --------------------------------------------------------------------------------------------

class Undecided(Exception):
    pass


def load_unit(pid):
    path = f"{VERIF}/units/{pid}.json"
    if not os.path.exists(path):
        raise Undecided(f"no unit file {path}")
    u = json.load(open(path))
    shared = json.load(open(f"{VERIF}/units/_shared.json"))
    # harness modules name helpers of other harness modules: close the module list under `requires`
    mods = list(u.get("modules", []))
    i = 0
    while i < len(mods):
        for r in shared.get("requires", {}).get(mods[i], []):
            if r not in mods:
                mods.append(r)
        i += 1
    u["modules"] = mods
    um = list(u.get("use_models", []))
    for m in mods:
        for f in shared.get("models_for", {}).get(m, []):
            if f not in um:
                um.append(f)
    u["use_models"] = um
    cs = list(u.get("contracts", []))
    for m in u.get("modules", []):
        cs += shared.get("contracts", {}).get(m, [])
    u["contracts"] = cs
    return u


def splice_module_line(rel, hroot):
    return f'\n#[cfg(kani)]\n#[path = "{hroot}/harness/{rel}"]\npub(crate) mod verif_kani;\n'


def snapshot_harness(scratch):
    """Private copy of /verif/{harness,spec,models} for this run (absolute /verif/ paths inside the
    copies are re-pointed at the copy), so that editing /verif while a check runs cannot disturb it."""
    root = f"{scratch}/verif"
    for d in ("harness", "spec", "models"):
        if os.path.isdir(f"{VERIF}/{d}"):
            shutil.copytree(f"{VERIF}/{d}", f"{root}/{d}", dirs_exist_ok=True)
    for dp, _, fs in os.walk(root):
        for f in fs:
            if f.endswith(".rs"):
                t = open(f"{dp}/{f}").read()
                t2 = re.sub(r'"/verif/(harness|spec|models)/', lambda m: f'"{root}/{m.group(1)}/', t)
                if t2 != t:
                    open(f"{dp}/{f}", "w").write(t2)
    return root


def prepare_scratch(scratch, modules, contracts, use_models, for_playback=False):
    """rsync /repo's working tree, drop dev-deps/examples, patch tracing+lru, splice harness modules.

    Returns a list of human-readable descriptions of every change made to the copy."""
    changes = []
    dst = f"{scratch}/repo"
    os.makedirs(scratch, exist_ok=True)
    hroot = snapshot_harness(scratch)
    r = subprocess.run(["rsync", "-a", "--delete", "--exclude", "target", "--exclude", ".git",
                        "--exclude", "examples", "--exclude", "docs", f"{REPO}/", f"{dst}/"],
                       capture_output=True, text=True)
    if r.returncode != 0:
        raise Undecided("rsync failed: " + r.stderr[-300:])
    changes.append("dropped from the copy: examples/, docs/ (not part of the library)")

    # Cargo.toml: drop [dev-dependencies], add [patch.crates-io]
    ct = open(f"{dst}/Cargo.toml").read()
    ct2 = re.sub(r"^tracing-subscriber\s*=.*\n", "", ct, flags=re.M)
    ct2 += ("\n[patch.crates-io]\n"
            f'tracing = {{ path = "{VERIF}/stubs/tracing" }}\n'
            f'lru = {{ path = "{VERIF}/stubs/lru" }}\n'
            "\n[lints.rust]\nunexpected_cfgs = { level = \"allow\" }\n")
    open(f"{dst}/Cargo.toml", "w").write(ct2)
    changes.append("Cargo.toml: dev-dependency tracing-subscriber removed (only examples use it); [patch.crates-io] tracing -> no-op macros, "
                   "lru -> three-slot stand-in")

    # harness modules (add-only)
    for rel in modules:
        src = f"{dst}/src/{rel}"
        hp = f"{hroot}/harness/{rel}"
        if not os.path.exists(src):
            raise Undecided(f"lost anchor: source file src/{rel} no longer exists")
        if not os.path.exists(hp):
            raise Undecided(f"harness module {hp} missing")
        with open(src, "a") as f:
            f.write(splice_module_line(rel, hroot))
        changes.append(f"src/{rel}: appended `#[cfg(kani)] mod verif_kani` -> /verif/harness/{rel} (run-private copy)")

    # contract attributes (add-only): inserted above the named fn inside the named impl
    for c in contracts:
        src = f"{dst}/src/{c['file']}"
        text = open(src).read()
        pat = re.compile(c["anchor"], re.M)
        m = list(pat.finditer(text))
        if len(m) != 1:
            raise Undecided(f"lost anchor: /{c['anchor']}/ matches {len(m)} times in src/{c['file']}")
        line_start = text.rfind("\n", 0, m[0].start()) + 1
        indent = re.match(r"[ \t]*", text[line_start:]).group(0)
        attrs = "".join(f"{indent}#[cfg_attr(kani, {a})]\n" for a in c["attrs"])
        text = text[:line_start] + attrs + text[line_start:]
        open(src, "w").write(text)
        changes.append(f"src/{c['file']}: {len(c['attrs'])} contract attribute(s) above `{m[0].group(0).strip()}`")

    # std collection stand-ins (the one non-add-only edit, see DESIGN section 3)
    if use_models:
        for rel in use_models:
            src = f"{dst}/src/{rel}"
            text = open(src).read()
            n = 0
            out = []
            for line in text.split("\n"):
                if re.match(r"^use std::\{collections::HashSet, convert::TryInto\};\s*$", line):
                    out += ["#[cfg(not(kani))]", line, "#[cfg(kani)]", "use std::convert::TryInto;", "#[cfg(kani)]",
                            "use crate::verif_models::HashSet;"]
                    n += 1
                    continue
                if re.match(r"^use std::collections::BTreeMap;\s*$", line):
                    out += ["#[cfg(not(kani))]", line, "#[cfg(kani)]", "use crate::verif_models::BTreeMap;"]
                    n += 1
                    continue
                m = re.match(r"^use std::collections::(HashMap|HashSet|\{[^}]*\});\s*$", line)
                if m and "BTreeMap" not in line:
                    names = re.findall(r"HashMap|HashSet", line)
                    out.append("#[cfg(not(kani))]")
                    out.append(line)
                    out.append("#[cfg(kani)]")
                    out.append("use crate::verif_models::{" + ", ".join(names) + "};")
                    n += 1
                else:
                    out.append(line)
            if n == 0:
                raise Undecided(f"lost anchor: no `use std::collections::HashMap/HashSet/BTreeMap` line in src/{rel}")
            open(src, "w").write("\n".join(out))
            changes.append(f"src/{rel}: {n} `use std::collections::..` line(s) cfg-switched to crate::verif_models under cfg(kani)")
        with open(f"{dst}/src/lib.rs", "a") as f:
            f.write(f'\n#[cfg(kani)]\n#[path = "{hroot}/models/verif_models.rs"]\nmod verif_models;\n')
        changes.append("src/lib.rs: appended `#[cfg(kani)] mod verif_models` (two-slot HashMap/HashSet stand-ins)")

    # offline
    os.makedirs(f"{dst}/.cargo", exist_ok=True)
    open(f"{dst}/.cargo/config.toml", "w").write("[net]\noffline = true\n")
    return changes


def extract_block(text, start_regex, what):
    """Statements between the `{` that ends the unique match of start_regex and its matching `}`."""
    ms = list(re.finditer(start_regex, text))
    if len(ms) != 1:
        raise Undecided(f"lost anchor: /{start_regex}/ matches {len(ms)} times in {what}")
    i = ms[0].end() - 1
    if text[i] != "{":
        raise Undecided(f"anchor /{start_regex}/ must end with an opening brace")
    depth, j = 0, i
    while j < len(text):
        if text[j] == "{":
            depth += 1
        elif text[j] == "}":
            depth -= 1
            if depth == 0:
                return text[i + 1:j]
        j += 1
    raise Undecided(f"unbalanced braces after /{start_regex}/ in {what}")


def generate_files(scratch, gens):
    """Mechanical extraction of code fragments from /repo's current tree into $VERIF_GEN."""
    notes = []
    os.makedirs(f"{scratch}/gen", exist_ok=True)
    for g in gens:
        bodies = []
        out = []
        lost = False
        for part in g["parts"]:
            text = open(f"{REPO}/src/{part['file']}").read()
            try:
                body = extract_block(text, part["start"], f"src/{part['file']}")
                for sub in part.get("substitute", []):
                    body, k = re.subn(sub["pattern"], sub["with"], body)
                    if k != 1:
                        raise Undecided(f"lost anchor: /{sub['pattern']}/ occurs {k} times in the body extracted from src/{part['file']}")
                    notes.append(f"in that body, the expression /{sub['pattern']}/ was replaced by `{sub['with']}` ({sub.get('why', '')})")
            except Undecided as e:
                # the obligations that need this fragment become undecided (their harness hits this
                # panic, which the driver classifies as a tool limit); the others still run
                msg = str(e).replace('"', "'").replace("{", "(").replace("}", ")").replace("\\", "")
                body = f'\n    panic!("VERIF-LOST-ANCHOR: {msg}");\n    #[allow(unreachable_code)]\n'
                notes.append(str(e))
                lost = True
            bodies.append(re.sub(r"\s+", " ", body).strip())
            out.append(f"// extracted verbatim from src/{part['file']} (loop body after /{part['start']}/)\n"
                       + g["wrap"].replace("@FN@", part["fn"]).replace("@BODY@", body))
            notes.append(f"extracted loop body of src/{part['file']} after /{part['start']}/ into gen/{g['out']} as fn {part['fn']}; dropped: loop header and its iterator/stream")
        if g.get("require_identical") and g.get("identical_is_fatal") and len(set(bodies)) != 1:
            raise Undecided("the extracted bodies are no longer token-identical: " + " | ".join(p["file"] for p in g["parts"]))
        notes.append("extracted bodies token-identical after whitespace normalisation: " + str(len(set(bodies)) == 1))
        open(f"{scratch}/gen/{g['out']}", "w").write("\n".join(out))
    return notes


def show_splice(scratch):
    r = subprocess.run(["diff", "-ru", "--exclude", "target", "--exclude", ".git", "--exclude", "examples",
                        "--exclude", "docs", "--exclude", ".cargo", "--exclude", "Cargo.lock",
                        REPO, f"{scratch}/repo"], capture_output=True, text=True)
    print(r.stdout)


# --------------------------------------------------------------------------------------------
# running Kani
# --------------------------------------------------------------------------------------------

def _limits(mem_gb):
    def f():
        os.setsid()
        if mem_gb:
            b = int(mem_gb * (1 << 30))
            resource.setrlimit(resource.RLIMIT_AS, (b, b))
    return f


def run_cmd(cmd, cwd, timeout, mem_gb=None, env=None, live_log=None):
    """live_log: path that receives the output while the command runs (so a long harness can be
    watched); the output is read back from it afterwards."""
    e = dict(os.environ)
    e["CARGO_NET_OFFLINE"] = "true"
    e.pop("RUSTFLAGS", None)
    if env:
        e.update(env)
    t0 = time.time()
    sink = open(live_log, "w") if live_log else subprocess.PIPE
    p = subprocess.Popen(cmd, cwd=cwd, stdout=sink, stderr=subprocess.STDOUT, text=True,
                         env=e, preexec_fn=_limits(mem_gb))
    try:
        out, _ = p.communicate(timeout=timeout)
        to = False
    except subprocess.TimeoutExpired:
        try:
            os.killpg(p.pid, signal.SIGKILL)
        except Exception:
            pass
        out, _ = p.communicate()
        to = True
    if live_log:
        sink.close()
        out = open(live_log, errors="replace").read()
    return p.returncode, out, time.time() - t0, to


CHECK_RE = re.compile(
    r"^Check (\d+): ([^\n]+)\n\t - Status: (\w+)\n\t - Description: \"(.*?)\"\n\t - Location: (.*?)$",
    re.M | re.S)

INFRA_DESCR = ("unwinding assertion", "VERIF-MODEL-BOUND", "VERIF-LOST-ANCHOR", "free argument must be", "free argument has offset zero", "rust_dealloc must be called on an object whose allocated size matches", "is not currently supported by Kani",
               "unsupported", "recursion unwinding")


def parse_kani(out):
    checks = []
    for m in CHECK_RE.finditer(out):
        checks.append({"n": int(m.group(1)), "name": m.group(2), "status": m.group(3),
                       "description": m.group(4), "location": m.group(5).strip()})
    res = {"checks": checks}
    res["successful"] = "VERIFICATION:- SUCCESSFUL" in out
    res["failed_verdict"] = "VERIFICATION:- FAILED" in out
    m = re.search(r"Verification Time: ([0-9.]+)s", out)
    res["solver_s"] = float(m.group(1)) if m else None
    res["stubs"] = sorted(set(re.findall(r"^\s*- Stub: (.*)$", out, re.M)))
    m = re.search(r"VERIF-RSS-KB (\d+)", out)
    res["rss_mb"] = int(m.group(1)) // 1024 if m else None
    return res


def classify(h, rc, out, wall, timed_out):
    """-> dict(verdict in pass|fail|undecided, reason, ...)"""
    p = parse_kani(out)
    checks = p["checks"]
    covers = [c for c in checks if c["status"] in ("SATISFIED", "UNSATISFIABLE", "UNREACHABLE")
              and ".cover." in c["name"]]
    props = [c for c in checks if c not in covers]
    # status ERROR is what CBMC prints for every check when it aborted (memory cap, internal error)
    # and for failed unwinding assertions: always a tool limit, never a decided failure
    errors = [c for c in props if c["status"] == "ERROR"]
    failures = [c for c in props if c["status"] == "FAILURE"]
    def harness_bug(c):
        # arithmetic overflow / index out of bounds raised by the harness text itself (not by an
        # obligation it asserts) is a defect of the harness: undecided, never a violation
        return ("/harness/" in c["location"] and "verif" in c["location"] and
                re.match(r"(attempt to .* with overflow|index out of bounds|attempt to divide)", c["description"]) is not None)
    infra_fail = [c for c in failures if any(k in c["description"] for k in INFRA_DESCR) or harness_bug(c)]
    real_fail = [c for c in failures if c not in infra_fail]
    undet = [c for c in props if c["status"] == "UNDETERMINED"]
    r = {
        "harness": h["name"], "kind": h["kind"], "bound": h.get("bound"), "wall_s": round(wall, 1),
        "solver_s": p["solver_s"], "checks": len(props),
        "success": sum(1 for c in props if c["status"] == "SUCCESS"),
        "unreachable": sum(1 for c in props if c["status"] == "UNREACHABLE"),
        "undetermined": len(undet), "covers": len(covers),
        "covers_satisfied": sum(1 for c in covers if c["status"] == "SATISFIED"),
        "stubs": p["stubs"], "failed_checks": real_fail[:20], "rss_mb": p["rss_mb"],
    }
    if timed_out:
        r.update(verdict="undecided", reason=f"timeout after {h.get('timeout_s')} s")
    elif errors:
        unw = [c for c in errors if "unwinding assertion" in c["description"]]
        r.update(verdict="undecided", reason="tool limit: " + (f"unwinding assertion {unw[0]['name']}" if unw and len(errors) < 5
                 else f"{len(errors)} checks with status ERROR (CBMC aborted: memory cap or internal error)"))
    elif real_fail:
        r.update(verdict="fail", reason=f"{len(real_fail)} check(s) FAILED: " + real_fail[0]["description"][:160])
    elif p["successful"]:
        bad_cov = [c for c in covers if c["status"] != "SATISFIED"]
        if bad_cov:
            r.update(verdict="undecided", reason="vacuous harness: cover not reachable: " +
                     "; ".join(c["description"] for c in bad_cov[:3]))
        elif len(props) == 0:
            r.update(verdict="undecided", reason="vacuous harness: zero checks generated")
        elif h.get("covers") is not None and len(covers) < h["covers"]:
            r.update(verdict="undecided", reason=f"expected >= {h['covers']} cover statements, found {len(covers)}")
        else:
            r.update(verdict="pass", reason="")
    elif infra_fail:
        r.update(verdict="undecided", reason="tool limit: " + infra_fail[0]["description"][:160])
    elif p["failed_verdict"]:
        r.update(verdict="undecided", reason="FAILED verdict without a failed check (memory cap or undetermined checks)")
    else:
        tail = out.strip().splitlines()[-8:]
        err = [l for l in out.splitlines() if l.startswith("error")]
        why = "compile error: " + " | ".join(err[:3]) if err else "no verdict: " + " | ".join(tail)[-300:]
        if "no harnesses matched" in out or "No proof harnesses" in out:
            why = "lost anchor: harness not found by Kani"
        r.update(verdict="undecided", reason=why)
    return r


def kani_cmd(h, extra=()):
    cmd = ["/usr/bin/time", "-f", "VERIF-RSS-KB %M", "cargo", "kani"] + KANI_FLAGS + ["--harness", h["name"], "--exact"]
    if h.get("solver"):
        cmd += ["--solver", h["solver"]]
    cmd += list(h.get("kani_args", []))
    cmd += list(extra)
    return cmd


DEADLINE = [None]  # quick tier: absolute time after which no harness may still be running


def run_harness(scratch, h, logdir, cwd=None):
    cwd = cwd or f"{scratch}/repo"
    tmo = h.get("timeout_s", 600)
    if DEADLINE[0] is not None:
        left = DEADLINE[0] - time.time()
        if left < 20:
            r = {"harness": h["name"], "kind": h["kind"], "bound": h.get("bound"), "wall_s": 0.0, "solver_s": None, "checks": 0, "success": 0,
                 "unreachable": 0, "undetermined": 0, "covers": 0, "covers_satisfied": 0, "stubs": [], "failed_checks": [], "rss_mb": None,
                 "verdict": "undecided", "reason": "not started: the quick tier's wall-clock budget was used up"}
            return r, ""
        tmo = min(tmo, left)
        h = dict(h, timeout_s=round(tmo))
    rc, out, wall, to = run_cmd(kani_cmd(h), cwd, tmo, h.get("mem_gb", 8),
                                live_log=f"{logdir}/{h['name'].split('::')[-1]}.log")
    return classify(h, rc, out, wall, to), out


# --------------------------------------------------------------------------------------------
# replay (concrete playback on the natively compiled real code)
# --------------------------------------------------------------------------------------------

def replay(scratch, h, res, out, pid, allow_playback=True):
    """Write the replay file for a failed obligation; try Kani's concrete playback against the
    native build of the real code. Returns (path, reproduced: bool)."""
    short = h["name"].split("::")[-1]
    os.makedirs(f"{OUT}/replays/{pid}", exist_ok=True)
    path = f"{OUT}/replays/{pid}/{short}.txt"
    lines = [f"property: {pid}", f"obligation (harness): {h['name']}", f"strength: {h['kind']}"
             + (f" (bound: {h['bound']})" if h.get("bound") else ""),
             f"functions under contract: {', '.join(h.get('functions', []))}",
             f"clause: {h.get('clause', '')}", "", "failed checks reported by CBMC:"]
    for c in res["failed_checks"]:
        lines.append(f"  - {c['name']}: \"{c['description']}\" at {c['location']}")
    reproduced = False
    native = ""
    cwd = f"{scratch}/repo"
    try:
        if not allow_playback:
            raise RuntimeError("concrete playback skipped: not enough of the quick tier's wall-clock budget left "
                               "(re-run `./check %s --tier thorough --only %s` for the native replay)" % (pid, short))
        rc, pout, _, to = run_cmd(kani_cmd(h, ["--concrete-playback=print"]), cwd,
                                  h.get("timeout_s", 600), h.get("mem_gb", 8))
        m = re.search(r"```\n(.*?)```", pout, re.S)
        if m:
            test_src = m.group(1)
            tn = re.search(r"fn (kani_concrete_playback_\w+)", test_src)
            lines += ["", "concrete counterexample (Kani concrete playback unit test):", test_src]
            if tn and not h.get("no_native_replay"):
                # put the generated test next to the harness (same module), run it natively
                mod = [m_ for m_ in h["name"].split("::")]
                hfile = h.get("module_file")
                tmp_h = f"{scratch}/playback_{short}.rs"
                shutil.copy(hfile, tmp_h)
                with open(tmp_h, "a") as f:
                    f.write("\n" + test_src + "\n")
                # re-point the spliced module at the copy
                srcfile = f"{cwd}/src/{h['module_rel']}"
                t = open(srcfile).read().replace(f'#[path = "{hfile}"]', f'#[path = "{tmp_h}"]')
                open(srcfile, "w").write(t)
                rc2, nout, _, to2 = run_cmd(["cargo", "kani", "playback", "-Z", "concrete-playback", "--",
                                             tn.group(1)], cwd, 900, None)
                open(srcfile, "w").write(open(srcfile).read().replace(f'#[path = "{tmp_h}"]', f'#[path = "{hfile}"]'))
                native = '\n'.join(l for l in nout.splitlines() if not re.match(r'^(warning|\s+\||\s+-->|\s*=|\s*$|\s+\d+ \|)', l))[-6000:]
                if re.search(r"test result: FAILED|panicked at", nout):
                    reproduced = True
                lines += ["", "native run of the counterexample against the real code (cargo kani playback):", native]
    except Exception as e:  # replay is best effort; the violation stands on the failed obligation
        lines += ["", f"(replay machinery error: {e})"]
    if not reproduced:
        lines += ["", "no-failing-input-found: the counterexample was not reproduced natively "
                  "(it lives in a contract stub's havoced value, or the harness has no native replay); "
                  "the verifier output for the failed obligation follows.", "",
                  "\n".join(l for l in out.splitlines() if "FAILURE" in l or "Failed Checks" in l
                            or l.startswith("VERIFICATION") or "** " in l)[-4000:]]
    open(path, "w").write("\n".join(lines) + "\n")
    return path, reproduced


# --------------------------------------------------------------------------------------------
# Verus
# --------------------------------------------------------------------------------------------

SPEC_ALLOWED = re.compile(r"\b(loop|while|for|mut|unsafe|impl|struct|enum|trait|static|let)\b")


def spec_to_verus(path):
    """Mechanical conversion of a layer-S file: `pub fn` -> `pub open spec fn`. Fails if the file
    leaves the shared subset."""
    src = open(path).read()
    code = re.sub(r"//.*", "", src)
    bad = SPEC_ALLOWED.search(code)
    if bad:
        raise Undecided(f"{path} leaves the shared spec subset (found `{bad.group(0)}`)")
    return re.sub(r"\bpub fn\b", "pub open spec fn", src)


def run_verus(scratch, v):
    """v: {file, specs:[spec files], name} -> result dict"""
    body = open(f"{VERIF}/{v['file']}").read()
    parts = ["use vstd::prelude::*;", "verus! {"]
    for s in v.get("specs", []):
        parts.append(f"// ---- generated from /verif/{s} (pub fn -> pub open spec fn) ----")
        parts.append(spec_to_verus(f"{VERIF}/{s}"))
    for ex in v.get("extract", []):
        parts.append(extract_fn(ex))
    parts.append(body)
    parts.append("} // verus!\nfn main() {}")
    os.makedirs(f"{scratch}/verus", exist_ok=True)
    f = f"{scratch}/verus/{os.path.basename(v['file'])}"
    open(f, "w").write("\n".join(parts))
    rc, out, wall, to = run_cmd(["verus", f, "--output-json", "--time"], f"{scratch}/verus", v.get("timeout_s", 300), None)
    res = {"file": v["file"], "wall_s": round(wall, 1), "verdict": "undecided", "verified": 0, "errors": 0,
           "reason": "", "kind": "verus"}
    try:
        j = json.loads(out[out.index('{\n  "'):] if '{\n  "' in out else out[out.index("{"):])
        vr = j.get("verification-results", {})
        res["verified"] = vr.get("verified", 0)
        res["errors"] = vr.get("errors", 0)
        res["solver_s"] = round(j.get("times-ms", {}).get("smt", {}).get("total", 0) / 1000.0, 3) \
            if isinstance(j.get("times-ms", {}).get("smt"), dict) else None
        if vr.get("success") and res["verified"] > 0 and res["errors"] == 0:
            res["verdict"] = "pass"
        elif res["errors"] > 0 and not to:
            res["verdict"] = "fail"
            res["reason"] = f"{res['errors']} Verus obligation(s) failed"
        else:
            res["reason"] = "no verification results"
    except Exception:
        if to:
            res["reason"] = "verus timeout"
        else:
            res["reason"] = "verus produced no JSON: " + out[-300:].replace("\n", " | ")
    res["raw"] = out[-6000:]
    return res


def extract_fn(ex):
    """Cut `fn name(..) {..}` verbatim out of a /repo source file by brace matching; delete
    tracing macro statements only. ex: {file, fn, impl(optional)}"""
    text = open(f"{REPO}/src/{ex['file']}").read()
    m = re.search(r"^[ \t]*(pub(\([a-z]+\))? )?fn " + re.escape(ex["fn"]) + r"\b", text, re.M)
    if not m:
        raise Undecided(f"lost anchor: fn {ex['fn']} not found in src/{ex['file']}")
    i = text.index("{", m.end())
    depth = 0
    j = i
    while True:
        if text[j] == "{":
            depth += 1
        elif text[j] == "}":
            depth -= 1
            if depth == 0:
                break
        j += 1
    fn = text[m.start():j + 1]
    fn = re.sub(r"^\s*(trace|debug|info|warn|error)!\(.*?\);\s*$", "", fn, flags=re.M | re.S)
    return fn


# --------------------------------------------------------------------------------------------
# known findings
# --------------------------------------------------------------------------------------------

def load_findings():
    p = f"{VERIF}/known_findings.json"
    if not os.path.exists(p):
        return {"findings": [], "fixed": []}
    return json.load(open(p))


# --------------------------------------------------------------------------------------------
# main
# --------------------------------------------------------------------------------------------

def scan_assumptions(unit):
    """Mechanical scan for assume/stub/external_body in the harness, spec and verus files used."""
    found = []
    files = [f"{VERIF}/harness/{m}" for m in unit.get("modules", [])]
    files += [f"{VERIF}/{v['file']}" for v in unit.get("verus", [])]
    pat = re.compile(r"kani::assume|#\[kani::stub\(|external_body|assume_specification|admit\(|\bassume\(")
    for f in files:
        if not os.path.exists(f):
            continue
        for i, line in enumerate(open(f), 1):
            if pat.search(line) and not line.strip().startswith("//"):
                found.append(f"{os.path.relpath(f, VERIF)}:{i}: {line.strip()[:140]}")
    return found


def main():
    import argparse
    ap = argparse.ArgumentParser()
    ap.add_argument("pid")
    ap.add_argument("--tier", default=os.environ.get("VERIF_TIER", "quick"))
    ap.add_argument("--only", default=None)
    ap.add_argument("--keep", action="store_true")
    ap.add_argument("--show-splice", action="store_true")
    ap.add_argument("--replay", default=None)
    ap.add_argument("--jobs", type=int, default=int(os.environ.get("VERIF_JOBS", "6")))
    a = ap.parse_args()
    pid = a.pid
    tier = "thorough" if a.tier in ("thorough", "attempt") else "quick"
    seed = int(os.environ.get("VERIF_SEED", "0") or 0)

    if a.replay:
        print(open(a.replay).read())
        return 0

    t0 = time.time()
    if tier == "quick":
        # a quick check is expected to finish within 900 s; stop cleanly (exit 2, evidence written)
        # rather than be killed from outside
        DEADLINE[0] = t0 + float(os.environ.get("VERIF_QUICK_BUDGET_S", "840"))
    scratch = os.environ.get("VERIF_SCRATCH", f"/var/tmp/mainline-verif.{pid}.{os.getpid()}")
    logdir = f"{scratch}/logs"
    results, vresults = [], []
    status = {"code": 2, "reason": ""}
    unit = None
    splice_changes = []
    violations = []
    known_seen = []
    try:
        unit = load_unit(pid)
        os.makedirs(logdir, exist_ok=True)
        # tiers: quick (every change), thorough (adds the obligations measured to need more time or
        # memory), unreached (written, attempted, never completed within 28-44 GB / an hour: run only
        # with --tier attempt, listed in the evidence as not decided)
        attempt = a.tier == "attempt"
        hs = [h for h in unit.get("harnesses", [])
              if h.get("tier", "quick") == "quick" or (tier == "thorough" and (attempt or h.get("tier") == "thorough"))]
        if a.only:
            hs = [h for h in hs if re.search(a.only, h["name"])]
        for h in hs:
            rel = h["name"].split("::verif_kani::")[0].replace("::", "/") + ".rs"
            h["module_rel"] = rel
            h["module_file"] = f"{scratch}/verif/harness/{rel}"
        modules = unit.get("modules", [])
        splice_changes = prepare_scratch(scratch, modules, unit.get("contracts", []), unit.get("use_models", []))
        splice_changes += generate_files(scratch, unit.get("generate", []))
        os.environ["VERIF_GEN"] = f"{scratch}/gen"
        if a.show_splice:
            show_splice(scratch)
            return 0

        vs = [v for v in unit.get("verus", []) if tier == "thorough" or v.get("tier", "quick") == "quick"]
        if a.only:
            vs = [v for v in vs if re.search(a.only, v["file"])]

        # ---- Kani: compile once, then harnesses in parallel by memory class
        if hs:
            log(f"[{pid}] building the spliced copy with cargo kani ({len(modules)} harness module(s)) ...")
            rc, out, wall, to = run_cmd(["cargo", "kani"] + KANI_FLAGS + ["--only-codegen"], f"{scratch}/repo", 1800)
            open(f"{logdir}/build.log", "w").write(out)
            if rc != 0 or to:
                errs = [l for l in out.splitlines() if l.startswith("error")]
                raise Undecided("spliced copy does not compile under cargo kani: " + " | ".join(errs[:4])
                                + f" (log: {logdir}/build.log)")
            log(f"[{pid}] build ok in {wall:.0f}s; running {len(hs)} harness(es), tier={tier}")
            small = [h for h in hs if h.get("mem_gb", 8) <= 10]
            large = [h for h in hs if h.get("mem_gb", 8) > 10]
            outs = {}

            # cargo kani holds the build-directory lock for the whole run of a harness, so harnesses
            # sharing one target directory are serialised: give every worker its own copy of the
            # built tree (232 MB each; deleted with the scratch directory)
            import queue
            nworkers = max(1, min(a.jobs, len(small)))
            dirs = queue.Queue()
            dirs.put(f"{scratch}/repo")
            for k in range(1, nworkers):
                d = f"{scratch}/repo-w{k}"
                subprocess.run(["cp", "-a", f"{scratch}/repo", d], check=True)
                dirs.put(d)

            def go(h):
                d = dirs.get()
                try:
                    r, o = run_harness(scratch, h, logdir, d)
                finally:
                    dirs.put(d)
                log(f"[{pid}]   {r['verdict']:9s} {h['kind']:8s} {h['name'].split('::')[-1]}  "
                    f"checks={r['checks']} covers={r['covers_satisfied']}/{r['covers']} {r['wall_s']}s rss={r['rss_mb']}MB  {r['reason'][:150]}")
                return h, r, o

            with cf.ThreadPoolExecutor(max_workers=max(1, a.jobs)) as ex:
                for h, r, o in ex.map(go, small):
                    results.append((h, r)); outs[h["name"]] = o
            for h in large:
                h, r, o = go(h)
                results.append((h, r)); outs[h["name"]] = o

        # ---- Verus
        for v in vs:
            r = run_verus(scratch, v)
            vresults.append((v, r))
            log(f"[{pid}]   {r['verdict']:9s} verus    {v['file']}  verified={r['verified']} errors={r['errors']} {r['wall_s']}s {r['reason']}")

        # ---- native cross-checks of the trusted base (e.g. the lru stand-in against the real crate)
        for nc in [n for n in unit.get("native", []) if tier == "thorough" or n.get("tier", "quick") == "quick"]:
            tgt = f"{scratch}/native-target"
            rc, out, wall, to = run_cmd(nc["cmd"], nc["cwd"], nc.get("timeout_s", 900), None, {"CARGO_TARGET_DIR": tgt})
            ok = rc == 0 and not to
            r = {"file": nc["name"], "kind": "native", "verdict": "pass" if ok else "undecided", "verified": 0, "errors": 0,
                 "wall_s": round(wall, 1), "reason": "" if ok else "trusted-base cross-check failed: " + out.strip().splitlines()[-1][:200] if out.strip() else "no output",
                 "raw": out[-2000:], "summary": out.strip().splitlines()[-1][:300] if out.strip() else ""}
            vresults.append(({"file": nc["name"], "clause": nc.get("clause", "")}, r))
            log(f"[{pid}]   {r['verdict']:9s} native   {nc['name']}  {r['wall_s']}s {r.get('summary', '')[:160]}")

        # ---- verdicts
        findings = load_findings()
        undecided = []
        for h, r in results:
            exp = h.get("expect", "pass")
            if exp == "finding":
                # a harness asserting the property ON a recorded finding's input class: while it fails
                # in the recorded way, print KNOWN-FINDING; if it passes nothing is printed.
                f = next((f for f in findings["findings"] if f.get("harness") == h["name"]), None)
                if r["verdict"] == "fail":
                    descr = " ".join(c["description"] for c in r["failed_checks"])
                    if f and re.search(f["match"], descr):
                        known_seen.append(f)
                        log(f"KNOWN-FINDING: property={pid} {f['what']}")
                    else:
                        violations.append((h, r))
                elif r["verdict"] == "undecided":
                    undecided.append((h["name"], r["reason"]))
                continue
            if r["verdict"] == "fail":
                violations.append((h, r))
            elif r["verdict"] == "undecided":
                undecided.append((h["name"], r["reason"]))
        for v, r in vresults:
            if r["verdict"] == "fail":
                violations.append((v, r))
            elif r["verdict"] == "undecided":
                undecided.append((v["file"], r["reason"]))

        if violations:
            status["code"] = 1
            for h, r in violations:
                if r.get("kind") == "verus":
                    os.makedirs(f"{OUT}/replays/{pid}", exist_ok=True)
                    path = f"{OUT}/replays/{pid}/{os.path.basename(h['file'])}.txt"
                    open(path, "w").write(f"property: {pid}\nobligation: Verus file {h['file']}\n"
                                          f"no-failing-input-found (Verus gives no counterexample)\n\n{r['raw']}\n")
                    log(f"VIOLATION property={pid} replay={path} no-failing-input-found")
                else:
                    # playback re-runs the harness and builds a native test: only if the budget allows
                    need = (r.get("wall_s") or 0) + 200
                    ok_time = DEADLINE[0] is None or (DEADLINE[0] - time.time()) > need
                    path, rep = replay(scratch, h, r, outs[h["name"]], pid, allow_playback=ok_time)
                    r["replay"] = path
                    r["replayed_natively"] = rep
                    log(f"VIOLATION property={pid} replay={path}" + ("" if rep else " no-failing-input-found"))
        elif undecided:
            status["code"] = 2
            status["reason"] = "; ".join(f"{n.split('::')[-1]}: {why}" for n, why in undecided[:4])
        elif not results and not vresults:
            status["code"] = 2
            status["reason"] = "no obligations selected"
        else:
            status["code"] = 0
    except Undecided as e:
        status["code"] = 2
        status["reason"] = str(e)
    finally:
        if unit is not None and not a.show_splice:
            try:
                write_evidence(pid, tier, seed, unit, results, vresults, status, splice_changes,
                               known_seen, time.time() - t0)
            except Exception as e:
                log(f"[{pid}] could not write evidence: {e}")
        try:  # keep the per-harness logs of the last run (gitignored) for diagnosis
            if os.path.isdir(logdir):
                shutil.rmtree(f"{OUT}/logs/{pid}", ignore_errors=True)
                shutil.copytree(logdir, f"{OUT}/logs/{pid}")
        except Exception:
            pass
        if not a.keep:
            shutil.rmtree(scratch, ignore_errors=True)
        else:
            log(f"[{pid}] scratch kept at {scratch}")

    if status["code"] == 2:
        log(f"UNDECIDED property={pid} reason={status['reason']}")
    elif status["code"] == 0:
        log(f"[{pid}] OK: all obligations discharged ({time.time() - t0:.0f}s)")
    return status["code"]


def write_evidence(pid, tier, seed, unit, results, vresults, status, splice_changes, known_seen, wall):
    complete = [(h, r) for h, r in results if h["kind"] in ("total", "contract") and h.get("expect", "pass") == "pass"]
    bounded = [(h, r) for h, r in results if h["kind"] == "bounded"]
    obligations = sum(r["checks"] for _, r in complete) + sum(r["verified"] + r["errors"] for _, r in vresults)
    discharged = sum(r["success"] + r["unreachable"] for _, r in complete if r["verdict"] == "pass") \
        + sum(r["verified"] for _, r in vresults if r["verdict"] == "pass")
    samples = []
    for h, r in results:
        samples.append({"obligation": h["name"], "strength": h["kind"], "bound": h.get("bound"),
                        "functions": h.get("functions", []), "clause": h.get("clause", ""),
                        "status": r["verdict"], "reason": r["reason"], "cbmc_checks": r["checks"],
                        "covers": f"{r['covers_satisfied']}/{r['covers']}", "wall_s": r["wall_s"],
                        "solver_s": r["solver_s"], "peak_rss_mb": r.get("rss_mb"), "back_end": "Kani 0.68 / CBMC 6.11 / " + (h.get("solver") or "cadical")})
    for v, r in vresults:
        if r.get("kind") == "native":
            samples.append({"obligation": v["file"], "strength": "native cross-check of the trusted base (not counted as an obligation)", "clause": v.get("clause", ""),
                            "status": r["verdict"], "wall_s": r["wall_s"], "summary": r.get("summary", "")})
            continue
        samples.append({"obligation": v["file"], "strength": "verus-lemma", "clause": v.get("clause", ""),
                        "status": r["verdict"], "verified_functions": r["verified"], "errors": r["errors"],
                        "wall_s": r["wall_s"], "back_end": "Verus 0.2026.09.13 / Z3"})
    stubs = sorted({s for _, r in results for s in r.get("stubs", [])})
    level = unit.get("level", "other")
    cov = {
        "obligations": obligations,
        "discharged": discharged,
        "checker_cmd": "cargo kani -Z function-contracts -Z stubbing --harness <name> --exact (on the spliced copy of /repo); "
                       "verus <file> --output-json --time",
        "trusted_base": unit.get("trusted_base", []) + [
            "rustc MIR -> Kani 0.68 -> CBMC 6.11 -> CaDiCaL", "Verus 0.2026.09.13 + Z3",
            "splice script (add-only; see splice_changes)"],
        "explanation": unit.get("explanation", ""),
        "functions_under_contract": unit.get("functions_under_contract", []),
        "complete_obligation_harnesses": len(complete),
        "bounded": [{"harness": h["name"], "bound": h.get("bound"), "status": r["verdict"], "cbmc_checks": r["checks"],
                     "wall_s": r["wall_s"]} for h, r in bounded],
        "covers_reached": sum(r["covers_satisfied"] for _, r in results),
        "covers_total": sum(r["covers"] for _, r in results),
        "stubs_applied": stubs,
        "assume_and_stub_scan": scan_assumptions(unit),
        "splice_changes": splice_changes,
        "known_findings_seen": [f["what"] for f in known_seen],
        "not_decided": unit.get("not_decided", []),
        "obligations_written_but_unreached": [{"obligation": h["name"], "clause": h.get("clause", ""), "bound": h.get("bound")}
                                              for h in unit.get("harnesses", []) if h.get("tier") == "unreached"],
        "samples": samples,
        "solver_time_s": round(sum((r["solver_s"] or 0) for _, r in results) + sum((r.get("solver_s") or 0) for _, r in vresults), 1),
        "status": {0: "all obligations discharged", 1: "violation", 2: "undecided: " + status["reason"]}[status["code"]],
        "evaluations": len(results) + len(vresults),
        "distinct_nontrivial": len(results) + len(vresults),
        "rule": "one evaluation = one Kani harness or Verus file; all are distinct obligations",
    }
    if level == "proof" and (obligations == 0 or discharged != obligations):
        level_out = "other"
        cov["explanation"] = (cov["explanation"] + " [this run did not discharge every obligation; reported at level other]").strip()
    else:
        level_out = level
    if not cov["explanation"]:
        cov["explanation"] = "see samples"
    ev = {"property_id": pid, "tier": tier, "seed": seed, "level": level_out, "coverage": cov,
          "assumptions": unit.get("assumptions", []), "wall_s": round(wall, 1),
          "violations": 1 if status["code"] == 1 else 0}
    os.makedirs(f"{OUT}/evidence", exist_ok=True)
    tmp = f"{OUT}/evidence/{pid}.json.tmp"
    json.dump(ev, open(tmp, "w"), indent=1)
    os.replace(tmp, f"{OUT}/evidence/{pid}.json")


if __name__ == "__main__":
    sys.exit(main())
