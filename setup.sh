#!/bin/bash
# Nothing to build: the driver is Python (stdlib), the harnesses are compiled by cargo kani on every run.
# This only checks that the tools the checks need are present.
set -e
cd /verif
command -v cargo-kani >/dev/null || { echo "cargo-kani missing"; exit 1; }
command -v verus >/dev/null || { echo "verus missing"; exit 1; }
command -v rsync >/dev/null || { echo "rsync missing"; exit 1; }
python3 -c 'import json,sys; json.load(open("/verif/MANIFEST.json"))'
mkdir -p /verif/evidence /verif/replays
echo setup ok
