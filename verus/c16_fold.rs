// Layer L — C16: folding `pick_takes_new` (generated above from /verif/spec/pick.rs) over ANY
// finite sequence of delivered items yields None iff the sequence is empty, and otherwise an
// element that no delivered element beats in (seq, value) order — for every arrival order.
// Values are abstracted to a total order on int (the Kani obligation ties `item_value_greater`
// to the byte-string order the code uses).

pub struct Item { pub seq: i64, pub v: int }

pub open spec fn beats(a: Item, b: Item) -> bool {
    a.seq > b.seq || (a.seq == b.seq && a.v > b.v)
}

pub open spec fn step(best: Option<Item>, it: Item) -> Option<Item> {
    if pick_takes_new(best.is_some(),
                      if best.is_some() { best.unwrap().seq } else { 0i64 },
                      it.seq,
                      best.is_some() && it.v > best.unwrap().v) { Some(it) } else { best }
}

pub open spec fn fold(s: Seq<Item>) -> Option<Item>
    decreases s.len()
{
    if s.len() == 0 { None } else { step(fold(s.drop_last()), s.last()) }
}

pub open spec fn is_max_of(m: Item, s: Seq<Item>) -> bool {
    (exists|i: int| 0 <= i < s.len() && s[i] == m)
    && (forall|j: int| 0 <= j < s.len() ==> !beats(#[trigger] s[j], m))
}

pub proof fn fold_is_max(s: Seq<Item>)
    ensures
        (s.len() == 0) <==> fold(s).is_none(),
        s.len() > 0 ==> is_max_of(fold(s).unwrap(), s),
    decreases s.len()
{
    if s.len() > 0 {
        let p = s.drop_last();
        fold_is_max(p);
        let m = fold(s).unwrap();
        if p.len() == 0 {
            assert(s[s.len() - 1] == m);
        } else {
            let pm = fold(p).unwrap();
            let i0 = choose|i: int| 0 <= i < p.len() && p[i] == pm;
            assert(s[i0] == pm);
            assert(s[s.len() - 1] == s.last());
            assert forall|j: int| 0 <= j < s.len() implies !beats(#[trigger] s[j], m) by {
                if j < p.len() { assert(s[j] == p[j]); }
            }
        }
    }
}

/// Two maxima of the same delivered multiset agree on (seq, value): the result does not depend on
/// the arrival order. (s2 is any permutation of s1: same elements.)
pub proof fn result_independent_of_arrival_order(s1: Seq<Item>, s2: Seq<Item>)
    requires
        s1.len() > 0,
        forall|i: int| 0 <= i < s1.len() ==> exists|j: int| 0 <= j < s2.len() && s2[j] == #[trigger] s1[i],
        forall|j: int| 0 <= j < s2.len() ==> exists|i: int| 0 <= i < s1.len() && s1[i] == #[trigger] s2[j],
    ensures
        fold(s1).is_some() && fold(s2).is_some(),
        fold(s1).unwrap().seq == fold(s2).unwrap().seq,
        fold(s1).unwrap().v == fold(s2).unwrap().v,
{
    fold_is_max(s1);
    assert(exists|j: int| 0 <= j < s2.len() && s2[j] == s1[0]);
    fold_is_max(s2);
    let a = fold(s1).unwrap();
    let b = fold(s2).unwrap();
    let ia = choose|i: int| 0 <= i < s1.len() && s1[i] == a;
    let ib = choose|j: int| 0 <= j < s2.len() && s2[j] == b;
    // a occurs in s2, so it does not beat b; b occurs in s1, so it does not beat a
    let ja = choose|j: int| 0 <= j < s2.len() && s2[j] == s1[ia];
    assert(!beats(s2[ja], b));
    let jb = choose|i: int| 0 <= i < s1.len() && s1[i] == s2[ib];
    assert(!beats(s1[jb], a));
}
