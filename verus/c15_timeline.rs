// Layer L for C15 — the token timeline, from the per-call contracts the Kani obligations establish:
//   * Server::handle_request rotates lazily BEFORE handling a request: if now - last_updated > 5 min
//     then prev := curr, curr := fresh, last_updated := now        (c15_rotate_and_should_update,
//                                                                   c15_handle_request_rotates_lazily)
//   * validate accepts exactly the tokens made with curr or prev for the presenter's IP
//                                                        (c15_validate_* ; collisions of the 32-bit CRC aside)
// `age` is the age of the secret the token was issued under: 0 = it is `curr`, 1 = it is `prev`,
// 2 = it is gone (the token is rejected). Times are seconds on the ghost clock.
pub open spec fn interval() -> int { 300 }

pub struct St { pub lu: int, pub age: int }

// handling a request at time t
pub open spec fn step(s: St, t: int) -> St {
    if t - s.lu > interval() { St { lu: t, age: if s.age < 2 { s.age + 1 } else { 2 } } } else { s }
}

pub open spec fn run(s: St, ts: Seq<int>) -> St
    decreases ts.len(),
{
    if ts.len() == 0 { s } else { run(step(s, ts[0]), ts.subrange(1, ts.len() as int)) }
}

pub open spec fn times_ok(t0: int, upto: int, ts: Seq<int>) -> bool {
    &&& forall|i: int| 0 <= i < ts.len() ==> t0 <= #[trigger] ts[i] <= upto
    &&& forall|i: int, j: int| 0 <= i < j < ts.len() ==> #[trigger] ts[i] <= #[trigger] ts[j]
}

// invariant while t <= t0 + 5 min: the issuing secret is still curr (last rotation no earlier than
// t0 - 5 min), or it is prev and the rotation that demoted it happened after t0
pub open spec fn inv(t0: int, s: St) -> bool {
    (s.age == 0 && t0 - interval() <= s.lu <= t0 + interval()) || (s.age == 1 && t0 < s.lu <= t0 + interval())
}

proof fn step_keeps_inv(t0: int, s: St, t: int)
    requires inv(t0, s), t0 <= t <= t0 + interval(), s.lu <= t,
    ensures inv(t0, step(s, t)), step(s, t).lu <= t || step(s, t).lu == s.lu,
{
}

// a token issued at t0 (right after the lazy rotation of that request, so t0 - 5 min <= lu <= t0) is
// accepted by every request handled up to t0 + 5 min, whatever the request times in between
proof fn token_is_valid_for_at_least_five_minutes(t0: int, s: St, ts: Seq<int>)
    requires
        inv(t0, s),
        times_ok(t0, t0 + interval(), ts),
        ts.len() > 0 ==> s.lu <= ts[0],
    ensures run(s, ts).age <= 1,
    decreases ts.len(),
{
    if ts.len() > 0 {
        let rest = ts.subrange(1, ts.len() as int);
        step_keeps_inv(t0, s, ts[0]);
        assert(times_ok(t0, t0 + interval(), rest)) by {
            assert forall|i: int| 0 <= i < rest.len() implies t0 <= #[trigger] rest[i] <= t0 + interval() by { assert(rest[i] == ts[i + 1]); }
            assert forall|i: int, j: int| 0 <= i < j < rest.len() implies #[trigger] rest[i] <= #[trigger] rest[j] by { assert(rest[i] == ts[i + 1] && rest[j] == ts[j + 1]); }
        }
        if rest.len() > 0 {
            assert(rest[0] == ts[1]);
            assert(ts[0] <= ts[1]);
        }
        token_is_valid_for_at_least_five_minutes(t0, step(s, ts[0]), rest);
    }
}

// two rotations later the token is rejected: once age is 2 it stays 2
proof fn rejected_after_two_rotations(s: St, ts: Seq<int>)
    requires s.age == 2,
    ensures run(s, ts).age == 2,
    decreases ts.len(),
{
    if ts.len() > 0 {
        rejected_after_two_rotations(step(s, ts[0]), ts.subrange(1, ts.len() as int));
    }
}

// on a node that handles a request at least every g seconds, the second rotation after the issue
// happens no later than t0 + 2 * (5 min + g): a rotation is due as soon as a request arrives more than
// 5 min after the previous rotation, and such a request arrives within g
proof fn two_rotations_within_ten_minutes_plus_slack(t0: int, lu0: int, g: int, r1: int, r2: int)
    requires
        g >= 0, lu0 <= t0,
        lu0 + interval() < r1 <= lu0 + interval() + g + 1, // first request later than lu0 + 5 min
        r1 + interval() < r2 <= r1 + interval() + g + 1,   // first request later than r1 + 5 min
    ensures
        step(step(St { lu: lu0, age: 0 }, r1), r2).age == 2,
        r2 <= t0 + 2 * (interval() + g + 1),
{
}
