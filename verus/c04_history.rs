// Layer L for C04 — closes the per-call step of /verif/spec/server.rs (which the Kani obligations
// show the real put/get arms of Server::handle_request to refine) over ALL histories of puts for
// one target, of any length. The spec functions put_mutable_accept / put_mutable_next_* above this
// line are generated from /verif/spec/server.rs on every run.
//
// State of one slot: None (nothing stored, or evicted) or Some((seq, id)) where `id` names the put
// that stored it (its index in the history), so "get returns exactly the last accepted item" can
// be stated.

pub struct Put {
    pub token_ok: bool,
    pub vlen: usize,
    pub salt_len: usize,
    pub seq: i64,
    pub has_cas: bool,
    pub cas: i64,
    pub item_ok: bool,
}

pub open spec fn accepts(st: Option<(i64, int)>, p: Put) -> bool {
    put_mutable_accept(p.token_ok, p.vlen, p.salt_len, st.is_some(), if st.is_some() { st.unwrap().0 } else { 0 }, p.seq, p.has_cas, p.cas, p.item_ok)
}

pub open spec fn step(st: Option<(i64, int)>, p: Put, id: int) -> Option<(i64, int)> {
    if accepts(st, p) { Some((p.seq, id)) } else { st }
}

// the step agrees with the (has, seq) pair the Kani harness checks after every call
proof fn step_is_the_checked_step(st: Option<(i64, int)>, p: Put, id: int)
    ensures
        step(st, p, id).is_some() == put_mutable_next_has(accepts(st, p), st.is_some()),
        step(st, p, id).is_some() ==> step(st, p, id).unwrap().0 == put_mutable_next_seq(accepts(st, p), if st.is_some() { st.unwrap().0 } else { 0 }, p.seq),
{
}

pub open spec fn run(st: Option<(i64, int)>, h: Seq<Put>, first_id: int) -> Option<(i64, int)>
    decreases h.len(),
{
    if h.len() == 0 { st } else { run(step(st, h[0], first_id), h.subrange(1, h.len() as int), first_id + 1) }
}

// one step never lowers the stored seq and never empties the slot
proof fn step_monotone(st: Option<(i64, int)>, p: Put, id: int)
    ensures
        st.is_some() ==> step(st, p, id).is_some() && step(st, p, id).unwrap().0 >= st.unwrap().0,
        // a refused put changes nothing
        !accepts(st, p) ==> step(st, p, id) == st,
        // 302 / 301 cases are refusals
        st.is_some() && p.seq < st.unwrap().0 ==> !accepts(st, p),
        st.is_some() && p.has_cas && p.cas != st.unwrap().0 ==> !accepts(st, p),
        // a valid put with a higher or equal seq and no (or matching) cas is accepted
        st.is_some() && p.token_ok && p.vlen <= 1000 && p.salt_len <= 64 && p.item_ok && p.seq >= st.unwrap().0
            && (!p.has_cas || p.cas == st.unwrap().0) ==> accepts(st, p),
{
}

// no rollback, for every history: while the item stays resident its seq never decreases
proof fn no_rollback(st: Option<(i64, int)>, h: Seq<Put>, first_id: int)
    ensures
        st.is_some() ==> run(st, h, first_id).is_some() && run(st, h, first_id).unwrap().0 >= st.unwrap().0,
    decreases h.len(),
{
    if h.len() > 0 {
        step_monotone(st, h[0], first_id);
        no_rollback(step(st, h[0], first_id), h.subrange(1, h.len() as int), first_id + 1);
    }
}

// running a history in two parts
proof fn run_split(st: Option<(i64, int)>, h: Seq<Put>, first_id: int, i: int)
    requires 0 <= i <= h.len(),
    ensures run(st, h, first_id) == run(run(st, h.subrange(0, i), first_id), h.subrange(i, h.len() as int), first_id + i),
    decreases i,
{
    if i == 0 {
        assert(h.subrange(0, 0).len() == 0);
        assert(h.subrange(0, h.len() as int) =~= h);
    } else {
        let t = h.subrange(1, h.len() as int);
        run_split(step(st, h[0], first_id), t, first_id + 1, i - 1);
        assert(h.subrange(0, i).subrange(1, i) =~= t.subrange(0, i - 1));
        assert(h.subrange(0, i)[0] == h[0]);
        assert(t.subrange(i - 1, t.len() as int) =~= h.subrange(i, h.len() as int));
    }
}

// for all i <= j: seq after i calls <= seq after j calls (once something is stored)
proof fn no_rollback_between(st: Option<(i64, int)>, h: Seq<Put>, i: int, j: int)
    requires 0 <= i <= j <= h.len(),
    ensures
        run(st, h.subrange(0, i), 0).is_some() ==>
            run(st, h.subrange(0, j), 0).is_some() && run(st, h.subrange(0, j), 0).unwrap().0 >= run(st, h.subrange(0, i), 0).unwrap().0,
{
    let hj = h.subrange(0, j);
    run_split(st, hj, 0, i);
    assert(hj.subrange(0, i) =~= h.subrange(0, i));
    no_rollback(run(st, h.subrange(0, i), 0), hj.subrange(i, j), i);
}

// what a get observes is the last accepted put of the history (or the initial state if none was)
pub open spec fn last_accepted(st: Option<(i64, int)>, h: Seq<Put>, first_id: int) -> Option<(i64, int)>
    decreases h.len(),
{
    if h.len() == 0 {
        st
    } else {
        let before = run(st, h.drop_last(), first_id);
        if accepts(before, h.last()) { Some((h.last().seq, first_id + h.len() - 1)) } else { last_accepted(st, h.drop_last(), first_id) }
    }
}

proof fn run_snoc(st: Option<(i64, int)>, h: Seq<Put>, first_id: int)
    requires h.len() > 0,
    ensures run(st, h, first_id) == step(run(st, h.drop_last(), first_id), h.last(), first_id + h.len() - 1),
{
    run_split(st, h, first_id, h.len() - 1);
    let tail = h.subrange(h.len() - 1, h.len() as int);
    assert(h.subrange(0, h.len() - 1) =~= h.drop_last());
    assert(tail.len() == 1);
    assert(tail[0] == h.last());
    let mid = run(st, h.drop_last(), first_id);
    assert(tail.subrange(1, 1).len() == 0);
    assert(run(mid, tail, first_id + h.len() - 1) == run(step(mid, tail[0], first_id + h.len() - 1), tail.subrange(1, tail.len() as int), first_id + h.len() - 1 + 1));
}

proof fn get_returns_last_accepted(st: Option<(i64, int)>, h: Seq<Put>, first_id: int)
    ensures run(st, h, first_id) == last_accepted(st, h, first_id),
    decreases h.len(),
{
    if h.len() > 0 {
        run_snoc(st, h, first_id);
        get_returns_last_accepted(st, h.drop_last(), first_id);
    }
}

// eviction (the capacity bound) may reset the slot to None at arbitrary points; between two
// evictions the lemmas above apply, and after an eviction any seq is accepted again:
proof fn after_eviction_any_seq_is_accepted(p: Put)
    ensures p.token_ok && p.vlen <= 1000 && p.salt_len <= 64 && p.item_ok ==> accepts(None, p),
{
}
