// Layer L for C11 — the order algebra, for accumulators and tables of any size.
// `before` above this line is generated from /verif/spec/order.rs. An entry is (secure?, d) where d
// is its XOR distance to the target as a natural number; two entries with the same id have the same
// d, and distinct ids have distinct d (XOR with a fixed target is injective).

pub struct N { pub secure: bool, pub d: int }

pub open spec fn cmp(a: N, b: N) -> i8 { if a.d < b.d { -1i8 } else if a.d == b.d { 0i8 } else { 1i8 } }
pub open spec fn lt(a: N, b: N) -> bool { before(a.secure, b.secure, cmp(a, b)) }

// strict total order on entries that differ in class or distance
proof fn lt_is_a_strict_total_order(a: N, b: N, c: N)
    ensures
        !lt(a, a),
        lt(a, b) ==> !lt(b, a),
        lt(a, b) && lt(b, c) ==> lt(a, c),
        (a.secure != b.secure || a.d != b.d) ==> lt(a, b) || lt(b, a),
{
}

pub open spec fn sorted(s: Seq<N>) -> bool {
    forall|i: int, j: int| 0 <= i < j < s.len() ==> lt(#[trigger] s[i], #[trigger] s[j])
}

// what ClosestNodes::add does on a sorted accumulator (Kani: c11_insert_position_*, c11_add_keeps_order_*):
// binary_search_by finds SOME position p with everything before p `lt` the new node and the new node
// `lt` everything from p on; inserting there keeps the accumulator sorted — for any length.
proof fn sorted_insert_keeps_sorted(s: Seq<N>, n: N, p: int)
    requires
        sorted(s),
        0 <= p <= s.len(),
        forall|i: int| 0 <= i < p ==> lt(#[trigger] s[i], n),
        forall|i: int| p <= i < s.len() ==> lt(n, #[trigger] s[i]),
    ensures sorted(s.insert(p, n)),
{
    let r = s.insert(p, n);
    assert forall|i: int, j: int| 0 <= i < j < r.len() implies lt(#[trigger] r[i], #[trigger] r[j]) by {
        let a = if i < p { s[i] } else if i == p { n } else { s[i - 1] };
        let b = if j < p { s[j] } else if j == p { n } else { s[j - 1] };
        assert(r[i] == a && r[j] == b);
    }
}

// so every insertion sequence leaves the accumulator sorted
pub open spec fn inserted_in_order(s: Seq<N>, t: Seq<N>, n: N, p: int) -> bool {
    &&& 0 <= p <= s.len()
    &&& t == s.insert(p, n)
    &&& forall|i: int| 0 <= i < p ==> lt(#[trigger] s[i], n)
    &&& forall|i: int| p <= i < s.len() ==> lt(n, #[trigger] s[i])
}

pub open spec fn add_step(s: Seq<N>, t: Seq<N>) -> bool {
    t == s || exists|n: N, p: int| #[trigger] inserted_in_order(s, t, n, p)
}

pub open spec fn insertion_history(h: Seq<Seq<N>>) -> bool {
    forall|k: int| 0 <= k < h.len() - 1 ==> add_step(#[trigger] h[k], h[k + 1])
}

proof fn sorted_for_every_insertion_sequence(h: Seq<Seq<N>>, k: int)
    requires h.len() > 0, h[0].len() == 0, insertion_history(h), 0 <= k < h.len(),
    ensures sorted(h[k]),
    decreases k,
{
    if k > 0 {
        sorted_for_every_insertion_sequence(h, k - 1);
        let s = h[k - 1];
        let t = h[k];
        assert(add_step(s, t));
        if t != s {
            let (n, p) = choose|n: N, p: int| #[trigger] inserted_in_order(s, t, n, p);
            sorted_insert_keeps_sorted(s, n, p);
        }
    }
}

// the first k entries of a sorted sequence are its k smallest: nothing outside the prefix is `lt`
// anything inside it (RoutingTable::closest takes nodes()[..min(20, len)])
proof fn prefix_of_sorted_is_the_k_smallest(s: Seq<N>, k: int)
    requires sorted(s), 0 <= k <= s.len(),
    ensures forall|i: int, j: int| 0 <= i < k && k <= j < s.len() ==> lt(#[trigger] s[i], #[trigger] s[j]) && !lt(s[j], s[i]),
{
    assert forall|i: int, j: int| 0 <= i < k && k <= j < s.len() implies lt(#[trigger] s[i], #[trigger] s[j]) && !lt(s[j], s[i]) by {
        lt_is_a_strict_total_order(s[i], s[j], s[i]);
    }
}

// take_until_secure: whatever the scan decides (u nodes, 0 <= u <= len), the slice bound
// max(u, 20).min(len) is at least min(20, len) and at most len
proof fn taken_bounds(u: usize, len: usize)
    requires u <= len,
    ensures
        taken(u, len) <= len,
        taken(u, len) >= (if len < 20 { len } else { 20 }),
        taken(u, len) >= u,
{
}
