// Layer L for C12 — the routing-table invariant over tables of ANY size and operation sequences of
// ANY length, from the per-call contracts that the Kani obligations establish on the real code:
//
//   RoutingTable::add(n)  (c12_table_add_guards_then_delegates_to_the_bucket_at_its_distance):
//     refuses n if n.id == own id, or if some entry with a DIFFERENT id clashes with it
//     (same IP and (entry insecure or same 21-bit prefix): Node::already_exists, proved in
//     c12_already_exists_is_the_per_ip_rule); otherwise the outcome is KBucket::add's
//   KBucket::add(n) (c12_kbucket_add_*): the bucket becomes one of
//     unchanged | old minus the entry with n's id, plus n | old plus n | old minus its stale head, plus n
//   RoutingTable::remove(id): the table minus the entries with that id
//   RoutingTable::reset_id(new): empty table under the new id, then add() for every old node
//
// Abstract entry: (id, ip, secure?, 21-bit prefix). The prefix is a function of the id.

pub struct E { pub id: int, pub ip: int, pub secure: bool, pub prefix: int }

pub open spec fn clash(n: E, e: E) -> bool {
    e.id != n.id && e.ip == n.ip && (!e.secure || e.prefix == n.prefix)
}

// "per IP address at most one non-secure node and no two secure nodes sharing a 21-bit prefix"
pub open spec fn ip_ok(a: E, b: E) -> bool {
    a.ip == b.ip ==> ((a.secure || b.secure) && !(a.secure && b.secure && a.prefix == b.prefix))
}

pub open spec fn wf(own: int, s: Seq<E>) -> bool {
    &&& forall|i: int| 0 <= i < s.len() ==> (#[trigger] s[i]).id != own
    &&& forall|i: int, j: int| 0 <= i < s.len() && 0 <= j < s.len() && i != j ==> (#[trigger] s[i]).id != (#[trigger] s[j]).id && ip_ok(s[i], s[j])
}

pub open spec fn admissible(own: int, s: Seq<E>, n: E) -> bool {
    n.id != own && forall|i: int| 0 <= i < s.len() ==> !clash(n, #[trigger] s[i])
}

pub open spec fn has_id(s: Seq<E>, id: int) -> bool {
    exists|i: int| 0 <= i < s.len() && (#[trigger] s[i]).id == id
}

// removing any entry preserves the invariant (remove(); also the first half of refresh/replace)
proof fn remove_preserves(own: int, s: Seq<E>, k: int)
    requires wf(own, s), 0 <= k < s.len(),
    ensures wf(own, s.remove(k)),
{
    let r = s.remove(k);
    assert forall|i: int| 0 <= i < r.len() implies (#[trigger] r[i]).id != own by {
        if i < k { assert(r[i] == s[i]); } else { assert(r[i] == s[i + 1]); }
    }
    assert forall|i: int, j: int| 0 <= i < r.len() && 0 <= j < r.len() && i != j implies (#[trigger] r[i]).id != (#[trigger] r[j]).id && ip_ok(r[i], r[j]) by {
        let ii = if i < k { i } else { i + 1 };
        let jj = if j < k { j } else { j + 1 };
        assert(r[i] == s[ii] && r[j] == s[jj] && ii != jj);
    }
}

// appending an admissible node whose id is not present preserves the invariant
proof fn push_preserves(own: int, s: Seq<E>, n: E)
    requires wf(own, s), admissible(own, s, n), !has_id(s, n.id),
    ensures wf(own, s.push(n)),
{
    let r = s.push(n);
    assert forall|i: int| 0 <= i < r.len() implies (#[trigger] r[i]).id != own by {
        if i < s.len() { assert(r[i] == s[i]); }
    }
    assert forall|i: int, j: int| 0 <= i < r.len() && 0 <= j < r.len() && i != j implies (#[trigger] r[i]).id != (#[trigger] r[j]).id && ip_ok(r[i], r[j]) by {
        if i < s.len() && j < s.len() {
            assert(r[i] == s[i] && r[j] == s[j]);
        } else if i < s.len() {
            assert(r[i] == s[i] && r[j] == n);
            assert(!clash(n, s[i]));
            assert(s[i].id != n.id);
        } else {
            assert(r[j] == s[j] && r[i] == n);
            assert(!clash(n, s[j]));
            assert(s[j].id != n.id);
        }
    }
}

// still admissible after an entry was taken out
proof fn admissible_after_remove(own: int, s: Seq<E>, n: E, k: int)
    requires admissible(own, s, n), 0 <= k < s.len(),
    ensures admissible(own, s.remove(k), n),
{
    let r = s.remove(k);
    assert forall|i: int| 0 <= i < r.len() implies !clash(n, #[trigger] r[i]) by {
        if i < k { assert(r[i] == s[i]); } else { assert(r[i] == s[i + 1]); }
    }
}

// (b) refresh: the entry with n's id is replaced by n
proof fn refresh_preserves(own: int, s: Seq<E>, n: E, k: int)
    requires wf(own, s), admissible(own, s, n), 0 <= k < s.len(), s[k].id == n.id,
    ensures wf(own, s.remove(k).push(n)),
{
    remove_preserves(own, s, k);
    admissible_after_remove(own, s, n, k);
    let r = s.remove(k);
    assert(!has_id(r, n.id)) by {
        if has_id(r, n.id) {
            let i = choose|i: int| 0 <= i < r.len() && (#[trigger] r[i]).id == n.id;
            let ii = if i < k { i } else { i + 1 };
            assert(r[i] == s[ii] && ii != k);
            assert(s[ii].id != s[k].id);
        }
    }
    push_preserves(own, r, n);
}

// (d) a full bucket replaces its stale head by n (n's id not present)
proof fn replace_preserves(own: int, s: Seq<E>, n: E, h: int)
    requires wf(own, s), admissible(own, s, n), 0 <= h < s.len(), !has_id(s, n.id),
    ensures wf(own, s.remove(h).push(n)),
{
    remove_preserves(own, s, h);
    admissible_after_remove(own, s, n, h);
    let r = s.remove(h);
    assert(!has_id(r, n.id)) by {
        if has_id(r, n.id) {
            let i = choose|i: int| 0 <= i < r.len() && (#[trigger] r[i]).id == n.id;
            let ii = if i < h { i } else { i + 1 };
            assert(r[i] == s[ii]);
            assert(has_id(s, n.id));
        }
    }
    push_preserves(own, r, n);
}

// ---- one operation, as a relation between the table before and after (all outcomes the contracts allow)
pub enum Op { Add(E), Remove(int) }

pub open spec fn add_outcome(own: int, s: Seq<E>, n: E, t: Seq<E>) -> bool {
    ||| t == s
    ||| (admissible(own, s, n) && exists|k: int| 0 <= k < s.len() && (#[trigger] s[k]).id == n.id && t == s.remove(k).push(n))
    ||| (admissible(own, s, n) && !has_id(s, n.id) && t == s.push(n))
    ||| (admissible(own, s, n) && !has_id(s, n.id) && exists|h: int| 0 <= h < s.len() && t == #[trigger] s.remove(h).push(n))
}

proof fn add_preserves(own: int, s: Seq<E>, n: E, t: Seq<E>)
    requires wf(own, s), add_outcome(own, s, n, t),
    ensures wf(own, t),
{
    if t == s {
    } else if admissible(own, s, n) && exists|k: int| 0 <= k < s.len() && (#[trigger] s[k]).id == n.id && t == s.remove(k).push(n) {
        let k = choose|k: int| 0 <= k < s.len() && (#[trigger] s[k]).id == n.id && t == s.remove(k).push(n);
        refresh_preserves(own, s, n, k);
    } else if admissible(own, s, n) && !has_id(s, n.id) && t == s.push(n) {
        push_preserves(own, s, n);
    } else {
        let h = choose|h: int| 0 <= h < s.len() && t == #[trigger] s.remove(h).push(n);
        replace_preserves(own, s, n, h);
    }
}

// a history is a sequence of tables, each obtained from the previous one by an allowed outcome of
// add (any node) or by removing an entry; the invariant holds at every point of every history
pub open spec fn step(own: int, s: Seq<E>, t: Seq<E>) -> bool {
    ||| exists|n: E| #[trigger] add_outcome(own, s, n, t)
    ||| exists|k: int| 0 <= k < s.len() && t == #[trigger] s.remove(k)
}

pub open spec fn history(own: int, h: Seq<Seq<E>>) -> bool {
    forall|i: int| 0 <= i < h.len() - 1 ==> step(own, #[trigger] h[i], h[i + 1])
}

proof fn invariant_holds_along_any_history(own: int, h: Seq<Seq<E>>, i: int)
    requires h.len() > 0, wf(own, h[0]), history(own, h), 0 <= i < h.len(),
    ensures wf(own, h[i]),
    decreases i,
{
    if i > 0 {
        invariant_holds_along_any_history(own, h, i - 1);
        let s = h[i - 1];
        let t = h[i];
        assert(step(own, s, t));
        if exists|n: E| #[trigger] add_outcome(own, s, n, t) {
            let n = choose|n: E| #[trigger] add_outcome(own, s, n, t);
            add_preserves(own, s, n, t);
        } else {
            let k = choose|k: int| 0 <= k < s.len() && t == #[trigger] s.remove(k);
            remove_preserves(own, s, k);
        }
    }
}

// re-keying starts a new history from the empty table (which is well formed under any id)
proof fn empty_table_is_well_formed(own: int)
    ensures wf(own, Seq::<E>::empty()),
{
}
