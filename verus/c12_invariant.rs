// Layer L for C12 — the induction over operation sequences. `T` is the abstract table state, `wf`
// the representation invariant checked by the Kani obligations, `apply` one operation
// (add / remove / re-key with arbitrary arguments). The hypothesis `step_preserves` is exactly what
// each Kani obligation c12_table_*_preserves_the_invariant / c12_kbucket_add_* establishes for the
// real code on an arbitrary well-formed pre-state.
pub struct Op { pub kind: int, pub arg: int }

pub uninterp spec fn wf(t: int) -> bool;
pub uninterp spec fn apply(t: int, op: Op) -> int;

pub open spec fn run(t: int, ops: Seq<Op>) -> int
    decreases ops.len(),
{
    if ops.len() == 0 { t } else { run(apply(t, ops[0]), ops.subrange(1, ops.len() as int)) }
}

proof fn invariant_holds_after_any_sequence(t: int, ops: Seq<Op>)
    requires
        wf(t),
        forall|s: int, op: Op| wf(s) ==> #[trigger] wf(apply(s, op)),
    ensures wf(run(t, ops)),
    decreases ops.len(),
{
    if ops.len() > 0 {
        invariant_holds_after_any_sequence(apply(t, ops[0]), ops.subrange(1, ops.len() as int));
    }
}
