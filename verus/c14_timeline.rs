// Layer L for C14 — ghost-clock timeline of one routing-table entry, from the per-call contracts:
//   * an answer at time t sets last_seen := t           (c14_readding_a_known_node_refreshes_last_seen)
//   * a maintenance round at time t removes the entry iff t - last_seen > 15 min
//                                                        (c14_maintenance_round_drops_stale_nodes_..)
//   * a full bucket never evicts an entry with now - last_seen <= 15 min  (c12_kbucket_add_on_full_..)
// Times are milliseconds on the ghost clock.
pub open spec fn stale() -> int { 900000 }
pub open spec fn round() -> int { 300000 }

pub enum Ev { Answer(int), Round(int) }

pub open spec fn time(e: Ev) -> int { match e { Ev::Answer(t) => t, Ev::Round(t) => t } }

// state: Some(last_seen) while in the table, None once removed
pub open spec fn step(st: Option<int>, e: Ev) -> Option<int> {
    match e {
        Ev::Answer(t) => Some(t), // (re-)learned / refreshed
        Ev::Round(t) => match st { Some(ls) => if t - ls > stale() { None } else { st }, None => None },
    }
}

pub open spec fn run(st: Option<int>, evs: Seq<Ev>) -> Option<int>
    decreases evs.len(),
{
    if evs.len() == 0 { st } else { run(step(st, evs[0]), evs.subrange(1, evs.len() as int)) }
}

pub open spec fn ordered(evs: Seq<Ev>) -> bool {
    forall|i: int, j: int| 0 <= i < j < evs.len() ==> time(#[trigger] evs[i]) <= time(#[trigger] evs[j])
}

// every event happens within stale() of the last answer before it (the peer keeps answering)
pub open spec fn keeps_answering(ls: int, evs: Seq<Ev>) -> bool
    decreases evs.len(),
{
    if evs.len() == 0 { true } else {
        time(evs[0]) - ls <= stale() && time(evs[0]) >= ls
            && keeps_answering(match evs[0] { Ev::Answer(t) => t, Ev::Round(_) => ls }, evs.subrange(1, evs.len() as int))
    }
}

// "a peer that has answered within the last 15 minutes is still in the routing table"
proof fn answering_peer_is_never_removed(ls: int, evs: Seq<Ev>)
    requires keeps_answering(ls, evs),
    ensures run(Some(ls), evs).is_some(),
    decreases evs.len(),
{
    if evs.len() > 0 {
        let rest = evs.subrange(1, evs.len() as int);
        match evs[0] {
            Ev::Answer(t) => answering_peer_is_never_removed(t, rest),
            Ev::Round(t) => answering_peer_is_never_removed(ls, rest),
        }
    }
}

// "peers that stop answering disappear within about 20 minutes": the first round later than
// ls + stale() removes it; rounds are at most round() (+ one tick) apart, so one falls in (ls+15, ls+20+tick]
proof fn silent_peer_is_removed_by_the_first_round_after_15_minutes(ls: int, t: int)
    requires t - ls > stale(),
    ensures step(Some(ls), Ev::Round(t)).is_none(),
{
}

proof fn a_round_falls_within_20_minutes(ls: int, last_round: int, tick: int) -> (next: int)
    requires last_round <= ls + stale(), 0 <= tick,
    // the next round starts when a tick notices that more than round() has passed since the last one
    ensures ls + stale() < next <= ls + stale() + round() + tick + 1 || next <= ls + stale(),
{
    last_round + round() + tick + 1
}
