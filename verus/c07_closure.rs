// Layer L for C07 — closure of the per-tick step over ticks, for lookups of any length.
// Candidates are abstract addresses (int); `closest` is the accumulator's first-20 window as a
// set, `visited` a set. Contracts taken from the Kani obligations:
//   visit_closest: sends to exactly { a in closest : a not in visited }, then visited' = visited ∪ those
//   responses only ever ADD candidates (ClosestNodes::add never drops a node), and each tick runs
//   visit_closest before is_done is evaluated (tick order: assumption, see the unit file)
pub open spec fn unvisited(closest: Set<int>, visited: Set<int>) -> Set<int> {
    closest.difference(visited)
}

pub open spec fn visit_closest(closest: Set<int>, visited: Set<int>) -> Set<int> {
    visited.union(unvisited(closest, visited))
}

// after visit_closest every one of the closest candidates has been queried
proof fn after_a_tick_every_closest_candidate_is_visited(closest: Set<int>, visited: Set<int>)
    ensures
        forall|a: int| closest.contains(a) ==> #[trigger] visit_closest(closest, visited).contains(a),
        unvisited(closest, visit_closest(closest, visited)) =~= Set::empty(),
        // visited only grows: an address is never un-visited, so the requests sent by this tick are
        // disjoint from everything sent before => no address is queried twice
        visited.subset_of(visit_closest(closest, visited)),
        unvisited(closest, visited).disjoint(visited),
{
}

// a lookup history: alternating "responses merged" (closest changes arbitrarily) and "tick"
// (visit_closest). Requests sent by tick k are unvisited(closest_k, visited_k). No address appears in
// the requests of two different ticks.
pub open spec fn sent(h: Seq<(Set<int>, Set<int>)>, k: int) -> Set<int> {
    unvisited(h[k].0, h[k].1)
}

pub open spec fn lookup(h: Seq<(Set<int>, Set<int>)>) -> bool {
    forall|k: int| 0 <= k < h.len() - 1 ==> (#[trigger] h[k + 1]).1 == visit_closest(h[k].0, h[k].1)
}

proof fn visited_is_monotone(h: Seq<(Set<int>, Set<int>)>, i: int, j: int)
    requires lookup(h), 0 <= i <= j < h.len(),
    ensures h[i].1.subset_of(h[j].1),
    decreases j - i,
{
    if i < j {
        visited_is_monotone(h, i, j - 1);
        assert(h[j - 1 + 1].1 == visit_closest(h[j - 1].0, h[j - 1].1));
    }
}

proof fn no_address_is_queried_twice(h: Seq<(Set<int>, Set<int>)>, i: int, j: int)
    requires lookup(h), 0 <= i < j < h.len(),
    ensures sent(h, i).disjoint(sent(h, j)),
{
    assert(h[i + 1].1 == visit_closest(h[i].0, h[i].1));
    visited_is_monotone(h, i + 1, j);
    assert forall|a: int| sent(h, i).contains(a) implies !sent(h, j).contains(a) by {
        assert(h[i + 1].1.contains(a));
        assert(h[j].1.contains(a));
    }
}
