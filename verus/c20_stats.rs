// Layer L for C20 — "the statistics always equal the aggregate over the currently cached lookups
// and never underflow", for caches of any size and histories of any length.
//
// One statistics table is modelled by one of its aggregates (each of the five is updated the same
// way): `stat` is a running sum, the cache a sequence of entries with contribution `c >= 0`
// (counts are 1 or 0, subnet counts and estimates are non-negative). The Kani obligations
// c20_stats_equal_the_aggregate_over_cached_lookups / c20_evicting_* show that one real call is one
// of the steps below with the right contribution.
pub open spec fn sum(s: Seq<int>) -> int
    decreases s.len(),
{
    if s.len() == 0 { 0 } else { sum(s.drop_last()) + s.last() }
}

proof fn sum_push(s: Seq<int>, c: int)
    ensures sum(s.push(c)) == sum(s) + c,
{
    assert(s.push(c).drop_last() =~= s);
}

proof fn sum_remove(s: Seq<int>, k: int)
    requires 0 <= k < s.len(),
    ensures sum(s.remove(k)) == sum(s) - s[k],
    decreases s.len(),
{
    if k == s.len() - 1 {
        assert(s.remove(k) =~= s.drop_last());
    } else {
        sum_remove(s.drop_last(), k);
        assert(s.remove(k).drop_last() =~= s.drop_last().remove(k));
        assert(s.remove(k).last() == s.last());
    }
}

proof fn sum_nonneg(s: Seq<int>)
    requires forall|i: int| 0 <= i < s.len() ==> s[i] >= 0,
    ensures sum(s) >= 0,
    decreases s.len(),
{
    if s.len() > 0 {
        sum_nonneg(s.drop_last());
    }
}

// the three steps of the cache: insert a new lookup, replace the entry of the same target, evict
pub open spec fn step(cache: Seq<int>, stat: int, cache2: Seq<int>, stat2: int) -> bool {
    ||| (cache2 == cache && stat2 == stat)
    ||| exists|c: int| c >= 0 && cache2 == #[trigger] cache.push(c) && stat2 == stat + c
    ||| exists|k: int| 0 <= k < cache.len() && cache2 == #[trigger] cache.remove(k) && stat2 == stat - cache[k]
}

proof fn step_preserves(cache: Seq<int>, stat: int, cache2: Seq<int>, stat2: int)
    requires
        stat == sum(cache),
        forall|i: int| 0 <= i < cache.len() ==> cache[i] >= 0,
        step(cache, stat, cache2, stat2),
    ensures
        stat2 == sum(cache2),
        forall|i: int| 0 <= i < cache2.len() ==> cache2[i] >= 0,
        stat2 >= 0,
{
    if cache2 == cache && stat2 == stat {
    } else if exists|c: int| c >= 0 && cache2 == #[trigger] cache.push(c) && stat2 == stat + c {
        let c = choose|c: int| c >= 0 && cache2 == #[trigger] cache.push(c) && stat2 == stat + c;
        sum_push(cache, c);
    } else {
        let k = choose|k: int| 0 <= k < cache.len() && cache2 == #[trigger] cache.remove(k) && stat2 == stat - cache[k];
        sum_remove(cache, k);
        assert forall|i: int| 0 <= i < cache2.len() implies cache2[i] >= 0 by {
            if i < k { assert(cache2[i] == cache[i]); } else { assert(cache2[i] == cache[i + 1]); }
        }
    }
    sum_nonneg(cache2);
}

// along any history of steps from the empty cache the invariant holds and the statistic is never negative
pub open spec fn history(h: Seq<(Seq<int>, int)>) -> bool {
    forall|i: int| 0 <= i < h.len() - 1 ==> step((#[trigger] h[i]).0, h[i].1, h[i + 1].0, h[i + 1].1)
}

proof fn stats_equal_the_aggregate_along_any_history(h: Seq<(Seq<int>, int)>, i: int)
    requires h.len() > 0, h[0].0.len() == 0, h[0].1 == 0, history(h), 0 <= i < h.len(),
    ensures
        h[i].1 == sum(h[i].0),
        h[i].1 >= 0,
        forall|j: int| 0 <= j < h[i].0.len() ==> h[i].0[j] >= 0,
    decreases i,
{
    if i > 0 {
        stats_equal_the_aggregate_along_any_history(h, i - 1);
        assert(step(h[i - 1].0, h[i - 1].1, h[i].0, h[i].1));
        step_preserves(h[i - 1].0, h[i - 1].1, h[i].0, h[i].1);
    }
}
