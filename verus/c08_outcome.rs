// Layer L for C08 — what a caller may conclude from the outcome of a put, over the step
// specification of /verif/spec/put.rs (which the Kani obligation c08_check_refines_put_outcome shows
// PutQuery::check to compute) and the delivery contract "every acknowledgement / error of one of the
// put's store requests reaches success() / error() exactly once" (c08_a_reply_to_a_store_request_is_
// counted_exactly_once + C09's at-most-once acceptance).
proof fn ok_means_at_least_one_node_acknowledged(is_mutable: bool, done: bool, acks: u64, top_code: i32, top_count: u64, sent: u64)
    ensures
        // Ok(stored) is reported iff the put is finished and at least one node acknowledged it
        put_outcome(is_mutable, done, acks, top_code, top_count, sent) == 1 <==> (done && acks >= 1),
        // a finished put nobody acknowledged is an error, never a success
        done && acks == 0 ==> put_outcome(is_mutable, done, acks, top_code, top_count, sent) >= 2,
        // conflict errors only ever surface for mutable puts
        (put_outcome(is_mutable, done, acks, top_code, top_count, sent) == 301 || put_outcome(is_mutable, done, acks, top_code, top_count, sent) == 302) ==> is_mutable,
        // an early failure needs a strict majority of the requests sent
        !done && put_outcome(is_mutable, done, acks, top_code, top_count, sent) != 0 ==> 2 * top_count > sent,
{
}

// acknowledgements counted one by one: after k deliveries the counter is k (no wrap: usize) and the
// verdict depends only on whether k >= 1
pub open spec fn count(acks: Seq<bool>) -> nat
    decreases acks.len(),
{
    if acks.len() == 0 { 0 } else { count(acks.drop_last()) + if acks.last() { 1nat } else { 0nat } }
}

proof fn counter_equals_number_of_acknowledgements(acks: Seq<bool>)
    ensures count(acks) <= acks.len(), count(acks) >= 1 <==> exists|i: int| 0 <= i < acks.len() && acks[i],
    decreases acks.len(),
{
    if acks.len() > 0 {
        counter_equals_number_of_acknowledgements(acks.drop_last());
        if acks.last() {
            assert(acks[acks.len() - 1]);
        } else if count(acks) >= 1 {
            let i = choose|i: int| 0 <= i < acks.drop_last().len() && acks.drop_last()[i];
            assert(acks[i]);
        }
        if exists|i: int| 0 <= i < acks.len() && acks[i] {
            let i = choose|i: int| 0 <= i < acks.len() && acks[i];
            if i < acks.len() - 1 { assert(acks.drop_last()[i]); }
        }
    }
}
