//! Stand-in for `tracing` used ONLY in the scratch copy that Kani compiles.
//! Any reachable `tracing::trace!/debug!` crashes kani-compiler 0.68 (intrinsics.rs:243), so the
//! five event macros expand to `()`. Dropped: every log statement including the evaluation of
//! its arguments.
#[macro_export] macro_rules! trace { ($($t:tt)*) => { () }; }
#[macro_export] macro_rules! debug { ($($t:tt)*) => { () }; }
#[macro_export] macro_rules! info  { ($($t:tt)*) => { () }; }
#[macro_export] macro_rules! warn  { ($($t:tt)*) => { () }; }
#[macro_export] macro_rules! error { ($($t:tt)*) => { () }; }
