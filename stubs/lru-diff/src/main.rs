//! Differential test of /verif/stubs/lru (the three-slot stand-in Kani compiles instead of lru 0.13)
//! against the real crate: all operation sequences of length <= DEPTH over {put, get, get_mut, peek,
//! pop_lru, len, iter} with keys 0..=3 and capacities 1..=3 (the stand-in's bound), exhaustively.
//! Sequences that would exceed three live entries are skipped (the stand-in aborts there by design).
use std::num::NonZeroUsize;

#[derive(Clone, Copy, Debug)]
enum Op { Put(u8, u8), Get(u8), GetMut(u8), Peek(u8), PopLru, Len, Iter }

fn ops() -> Vec<Op> {
    let mut v = vec![Op::PopLru, Op::Len, Op::Iter];
    for k in 0..4u8 {
        v.push(Op::Put(k, k + 10));
        v.push(Op::Put(k, k + 20));
        v.push(Op::Get(k));
        v.push(Op::GetMut(k));
        v.push(Op::Peek(k));
    }
    v
}

fn run(cap: usize, seq: &[Op]) -> Result<(), String> {
    let mut r = lru_real::LruCache::<u8, u8>::new(NonZeroUsize::new(cap).unwrap());
    let mut m = lru_model::LruCache::<u8, u8>::new(NonZeroUsize::new(cap).unwrap());
    for (i, op) in seq.iter().enumerate() {
        let (a, b) = match *op {
            Op::Put(k, v) => (format!("{:?}", r.put(k, v)), format!("{:?}", m.put(k, v))),
            Op::Get(k) => (format!("{:?}", r.get(&k)), format!("{:?}", m.get(&k))),
            Op::GetMut(k) => (format!("{:?}", r.get_mut(&k).map(|x| { *x += 1; *x })), format!("{:?}", m.get_mut(&k).map(|x| { *x += 1; *x }))),
            Op::Peek(k) => (format!("{:?}", r.peek(&k)), format!("{:?}", m.peek(&k))),
            Op::PopLru => (format!("{:?}", r.pop_lru()), format!("{:?}", m.pop_lru())),
            Op::Len => (format!("{}", r.len()), format!("{}", m.len())),
            Op::Iter => (format!("{:?}", r.iter().map(|(k, v)| (*k, *v)).collect::<Vec<_>>()), format!("{:?}", m.iter().map(|(k, v)| (*k, *v)).collect::<Vec<_>>())),
        };
        if a != b {
            return Err(format!("cap {cap}, step {i} {:?} of {:?}: real {a} != model {b}", op, seq));
        }
        if r.len() != m.len() {
            return Err(format!("cap {cap}, after step {i} of {:?}: len {} != {}", seq, r.len(), m.len()));
        }
    }
    Ok(())
}

/// ghost mode: `m` tracked entries (keys 0..m, oldest first), then `g` untracked ones (keys 100..)
/// that the stand-in only counts; sequences on which the stand-in gives up (VERIF-MODEL-BOUND) are skipped
fn run_ghost(cap: usize, m0: u8, g: usize, seq: &[Op]) -> Result<bool, String> {
    let mut r = lru_real::LruCache::<u8, u8>::new(NonZeroUsize::new(cap).unwrap());
    let mut m = lru_model::LruCache::<u8, u8>::new(NonZeroUsize::new(cap).unwrap());
    for k in 0..m0 {
        r.put(k, k + 50);
        m.put(k, k + 50);
    }
    for i in 0..g {
        r.put(100 + i as u8, 0);
    }
    m.ghost = g;
    m.above = 0;
    let out = std::panic::catch_unwind(std::panic::AssertUnwindSafe(|| -> Result<(), String> {
        for (i, op) in seq.iter().enumerate() {
            let (a, b) = match *op {
                Op::Put(k, v) => (format!("{:?}", r.put(k, v)), format!("{:?}", m.put(k, v))),
                Op::Get(k) => (format!("{:?}", r.get(&k)), format!("{:?}", m.get(&k))),
                Op::GetMut(k) => (format!("{:?}", r.get_mut(&k).map(|x| { *x += 1; *x })), format!("{:?}", m.get_mut(&k).map(|x| { *x += 1; *x }))),
                Op::Peek(k) => (format!("{:?}", r.peek(&k)), format!("{:?}", m.peek(&k))),
                Op::PopLru => {
                    let b = format!("{:?}", m.pop_lru());
                    (format!("{:?}", r.pop_lru()), b)
                }
                Op::Len => (format!("{}", r.len()), format!("{}", m.len())),
                Op::Iter => {
                    let b = format!("{:?}", m.iter().map(|(k, v)| (*k, *v)).collect::<Vec<_>>());
                    (format!("{:?}", r.iter().map(|(k, v)| (*k, *v)).collect::<Vec<_>>()), b)
                }
            };
            if a != b {
                return Err(format!("ghost cap {cap} tracked {m0} ghost {g}, step {i} {:?} of {:?}: real {a} != model {b}", op, seq));
            }
            if r.len() != m.len() {
                return Err(format!("ghost cap {cap} tracked {m0} ghost {g}, after step {i} of {:?}: len {} != {}", seq, r.len(), m.len()));
            }
        }
        Ok(())
    }));
    match out {
        Ok(Ok(())) => Ok(true),
        Ok(Err(e)) => Err(e),
        Err(p) => {
            let msg = p.downcast_ref::<String>().cloned().or_else(|| p.downcast_ref::<&str>().map(|s| s.to_string())).unwrap_or_default();
            if msg.starts_with("VERIF-MODEL-BOUND") { Ok(false) } else { Err(format!("model panicked: {msg}")) }
        }
    }
}

fn main() {
    std::panic::set_hook(Box::new(|_| {}));
    let depth: usize = std::env::args().nth(1).and_then(|s| s.parse().ok()).unwrap_or(4);
    let all = ops();
    let mut n = 0u64;
    for cap in 1..=3usize {
        let mut idx = vec![0usize; depth];
        loop {
            let seq: Vec<Op> = idx.iter().map(|&i| all[i]).collect();
            for len in 1..=depth {
                if let Err(e) = run(cap, &seq[..len]) {
                    println!("MISMATCH {e}");
                    std::process::exit(1);
                }
            }
            n += 1;
            let mut p = depth;
            loop {
                if p == 0 { break; }
                p -= 1;
                idx[p] += 1;
                if idx[p] < all.len() { break; }
                idx[p] = 0;
                if p == 0 { p = usize::MAX; break; }
            }
            if p == usize::MAX { break; }
        }
    }
    // ghost mode (Put of a model-op order matters: the model op runs FIRST where it may give up, so
    // that the real cache is not consulted after the stand-in has given up)
    let mut ng = 0u64;
    let mut skipped = 0u64;
    let gdepth = depth.min(4);
    for (m0, g) in [(0u8, 1usize), (1, 1), (2, 1), (1, 2), (2, 3), (3, 2)] {
        for spare in 0..=1usize {
            let cap = m0 as usize + g + spare;
            let mut idx = vec![0usize; gdepth];
            loop {
                let seq: Vec<Op> = idx.iter().map(|&i| all[i]).collect();
                match run_ghost(cap, m0, g, &seq) {
                    Ok(true) => ng += 1,
                    Ok(false) => skipped += 1,
                    Err(e) => {
                        println!("MISMATCH {e}");
                        std::process::exit(1);
                    }
                }
                let mut p = gdepth;
                loop {
                    if p == 0 { break; }
                    p -= 1;
                    idx[p] += 1;
                    if idx[p] < all.len() { break; }
                    idx[p] = 0;
                    if p == 0 { p = usize::MAX; break; }
                }
                if p == usize::MAX { break; }
            }
        }
    }
    println!("ghost entries: agrees on {ng} sequences of length {gdepth} ({skipped} skipped: the stand-in gave up with VERIF-MODEL-BOUND)");
    println!("lru stand-in agrees with lru 0.13 on {n} operation sequences of length {depth} (all prefixes), capacities 1..=3");
}
