//! Differential test of /verif/stubs/lru (the three-slot stand-in Kani compiles instead of lru 0.13)
//! against the real crate: all operation sequences of length <= DEPTH over {put, get, get_mut, peek,
//! pop_lru, len, iter} with keys 0..=3 and capacities 1..=3 (the stand-in's bound), exhaustively.
//! Sequences that would exceed three live entries are skipped (the stand-in aborts there by design).
use std::num::NonZeroUsize;

#[derive(Clone, Copy, Debug)]
enum Op { Put(u8, u8), Get(u8), GetMut(u8), Peek(u8), PopLru, Len, Iter }

fn ops() -> Vec<Op> {
    let mut v = vec![Op::PopLru, Op::Len, Op::Iter];
    for k in 0..4u8 {
        v.push(Op::Put(k, k + 10));
        v.push(Op::Put(k, k + 20));
        v.push(Op::Get(k));
        v.push(Op::GetMut(k));
        v.push(Op::Peek(k));
    }
    v
}

fn run(cap: usize, seq: &[Op]) -> Result<(), String> {
    let mut r = lru_real::LruCache::<u8, u8>::new(NonZeroUsize::new(cap).unwrap());
    let mut m = lru_model::LruCache::<u8, u8>::new(NonZeroUsize::new(cap).unwrap());
    for (i, op) in seq.iter().enumerate() {
        let (a, b) = match *op {
            Op::Put(k, v) => (format!("{:?}", r.put(k, v)), format!("{:?}", m.put(k, v))),
            Op::Get(k) => (format!("{:?}", r.get(&k)), format!("{:?}", m.get(&k))),
            Op::GetMut(k) => (format!("{:?}", r.get_mut(&k).map(|x| { *x += 1; *x })), format!("{:?}", m.get_mut(&k).map(|x| { *x += 1; *x }))),
            Op::Peek(k) => (format!("{:?}", r.peek(&k)), format!("{:?}", m.peek(&k))),
            Op::PopLru => (format!("{:?}", r.pop_lru()), format!("{:?}", m.pop_lru())),
            Op::Len => (format!("{}", r.len()), format!("{}", m.len())),
            Op::Iter => (format!("{:?}", r.iter().map(|(k, v)| (*k, *v)).collect::<Vec<_>>()), format!("{:?}", m.iter().map(|(k, v)| (*k, *v)).collect::<Vec<_>>())),
        };
        if a != b {
            return Err(format!("cap {cap}, step {i} {:?} of {:?}: real {a} != model {b}", op, seq));
        }
        if r.len() != m.len() {
            return Err(format!("cap {cap}, after step {i} of {:?}: len {} != {}", seq, r.len(), m.len()));
        }
    }
    Ok(())
}

fn main() {
    let depth: usize = std::env::args().nth(1).and_then(|s| s.parse().ok()).unwrap_or(4);
    let all = ops();
    let mut n = 0u64;
    for cap in 1..=3usize {
        let mut idx = vec![0usize; depth];
        loop {
            let seq: Vec<Op> = idx.iter().map(|&i| all[i]).collect();
            for len in 1..=depth {
                if let Err(e) = run(cap, &seq[..len]) {
                    println!("MISMATCH {e}");
                    std::process::exit(1);
                }
            }
            n += 1;
            let mut p = depth;
            loop {
                if p == 0 { break; }
                p -= 1;
                idx[p] += 1;
                if idx[p] < all.len() { break; }
                idx[p] = 0;
                if p == 0 { p = usize::MAX; break; }
            }
            if p == usize::MAX { break; }
        }
    }
    println!("lru stand-in agrees with lru 0.13 on {n} operation sequences of length {depth} (all prefixes), capacities 1..=3");
}
