//! Stand-in for `lru 0.13` used ONLY in the scratch copy that Kani compiles.
//!
//! The real crate (hashbrown + SipHash + RandomState + raw-pointer linked list) is out of
//! CBMC's reach (measured: one put+get with a symbolic key does not finish). This is an
//! *assumed contract on a dependency made executable*: a cache of at most THREE live entries
//! held in named slots `s0` (most recently used) .. `s2`, written as straight-line code with no
//! `Vec`, no array indexed by a variable and no `slice::swap` (measured 0.3 s against 24-42 s).
//!
//! Semantics reproduced (lru 0.13 documentation):
//!  * `put(k, v)`: existing key => value replaced, entry becomes MRU, old value returned;
//!    new key at capacity => the LRU entry is dropped first; new entry becomes MRU; `None`.
//!  * `get` / `get_mut`: hit => entry becomes MRU.   `peek`: no reordering.
//!  * `pop_lru`: removes and returns the LRU entry.  `iter`: MRU first, exact size.
//!
//! Model bound: a cache whose capacity exceeds 3 may hold at most 3 entries; a fourth
//! insertion panics with a message starting `VERIF-MODEL-BOUND`, which the driver classifies as
//! "undecided" (exit 2), never as a property violation.
//!
//! GHOST ENTRIES (`ghost`, default 0): a harness may declare that the cache also holds `ghost`
//! further entries whose keys differ from every key the harness uses, so that a cache "at its
//! capacity of 1000" can be stated. They sit in one block in the recency order: the first `above`
//! slots are more recent than the block, the other slots older (a promoted or new entry moves in
//! front of the block). They only count in `len()`; an operation that would have to return, evict
//! or iterate a ghost entry panics with `VERIF-MODEL-BOUND` (undecided). With `ghost == 0` the
//! behaviour is exactly the one described above.
//!
//! /verif/stubs/lru-diff runs random operation sequences against this model and the real
//! crate (thorough tier).
#![allow(clippy::all)]
use core::num::NonZeroUsize;

pub struct LruCache<K, V> {
    cap: NonZeroUsize,
    // boxed so that re-ordering moves three pointers, not three entries (measured: with inline
    // entries of ~180 bytes one Server::handle_request harness was 7 M variables / 33 M clauses)
    pub s0: Option<Box<(K, V)>>,
    pub s1: Option<Box<(K, V)>>,
    pub s2: Option<Box<(K, V)>>,
    /// number of untracked entries (see the module comment); 0 unless a harness sets it
    pub ghost: usize,
    /// how many of the occupied slots (from s0) are more recent than the ghost block
    pub above: u8,
}

impl<K, V> core::fmt::Debug for LruCache<K, V> {
    fn fmt(&self, f: &mut core::fmt::Formatter<'_>) -> core::fmt::Result {
        f.write_str("LruCache")
    }
}

impl<K: Clone, V: Clone> Clone for LruCache<K, V> {
    fn clone(&self) -> Self {
        LruCache {
            cap: self.cap,
            s0: self.s0.clone(),
            s1: self.s1.clone(),
            s2: self.s2.clone(),
            ghost: self.ghost,
            above: self.above,
        }
    }
}

/// `*slot = v` for a slot known to be empty: forget the old value instead of running drop glue
/// that CBMC cannot see to be a no-op.
fn put_into_empty<T>(slot: &mut Option<T>, v: Option<T>) {
    core::mem::forget(core::mem::replace(slot, v));
}

fn hit<K: PartialEq, V>(slot: &Option<Box<(K, V)>>, k: &K) -> bool {
    match slot {
        Some(e) => e.0 == *k,
        None => false,
    }
}

impl<K: PartialEq, V> LruCache<K, V> {
    pub fn new(cap: NonZeroUsize) -> Self {
        LruCache { cap, s0: None, s1: None, s2: None, ghost: 0, above: 0 }
    }

    pub fn cap(&self) -> NonZeroUsize {
        self.cap
    }

    pub fn len(&self) -> usize {
        self.slots() + self.ghost
    }

    fn slots(&self) -> usize {
        if self.s0.is_none() {
            0
        } else if self.s1.is_none() {
            1
        } else if self.s2.is_none() {
            2
        } else {
            3
        }
    }

    pub fn is_empty(&self) -> bool {
        self.s0.is_none()
    }

    /// Makes the entry holding `k` (if any) the most recently used one. Returns whether it exists.
    fn promote(&mut self, k: &K) -> bool {
        if hit(&self.s0, k) {
            if self.above < 1 {
                self.above = 1;
            }
            true
        } else if hit(&self.s1, k) {
            if self.above < 2 {
                self.above += 1;
            }
            // (not mem::swap: its chunked byte loop needs an unwinding bound that grows with the entry size)
            let hot = self.s1.take();
            let s0 = self.s0.take();
            put_into_empty(&mut self.s1, s0);
            put_into_empty(&mut self.s0, hot);
            true
        } else if hit(&self.s2, k) {
            if self.above < 3 {
                self.above += 1;
            }
            let hot = self.s2.take();
            let s1 = self.s1.take();
            put_into_empty(&mut self.s2, s1);
            let s0 = self.s0.take();
            put_into_empty(&mut self.s1, s0);
            put_into_empty(&mut self.s0, hot);
            true
        } else {
            false
        }
    }

    pub fn contains(&self, k: &K) -> bool {
        hit(&self.s0, k) || hit(&self.s1, k) || hit(&self.s2, k)
    }

    pub fn peek(&self, k: &K) -> Option<&V> {
        if hit(&self.s0, k) {
            self.s0.as_ref().map(|e| &e.1)
        } else if hit(&self.s1, k) {
            self.s1.as_ref().map(|e| &e.1)
        } else if hit(&self.s2, k) {
            self.s2.as_ref().map(|e| &e.1)
        } else {
            None
        }
    }

    pub fn get(&mut self, k: &K) -> Option<&V> {
        if self.promote(k) {
            self.s0.as_ref().map(|e| &e.1)
        } else {
            None
        }
    }

    pub fn get_mut(&mut self, k: &K) -> Option<&mut V> {
        if self.promote(k) {
            self.s0.as_mut().map(|e| &mut e.1)
        } else {
            None
        }
    }

    pub fn put(&mut self, k: K, v: V) -> Option<V> {
        if self.promote(&k) {
            return match self.s0.as_mut() {
                Some(e) => Some(core::mem::replace(&mut e.1, v)),
                None => None,
            };
        }

        let n = self.len();
        let cap = self.cap.get();

        if n >= cap && self.ghost > 0 {
            // at capacity with untracked entries: the least recently used entry must be a tracked one
            let m = self.slots();
            if m == 0 || (self.above as usize) >= m {
                panic!("VERIF-MODEL-BOUND: the lru stand-in would have to evict an untracked entry");
            }
            if m == 1 {
                self.s0 = None;
            } else if m == 2 {
                self.s1 = None;
            } else {
                self.s2 = None;
            }
        } else if n >= cap {
            // at capacity (cap <= 3 here): drop the least recently used entry
            if cap == 1 {
                self.s0 = None;
            } else if cap == 2 {
                self.s1 = None;
            } else {
                self.s2 = None;
            }
        } else if self.slots() == 3 {
            panic!("VERIF-MODEL-BOUND: the lru stand-in holds at most 3 entries");
        }
        self.above += 1;

        // push front; `s2` is empty at this point
        let s1 = self.s1.take();
        put_into_empty(&mut self.s2, s1);
        let s0 = self.s0.take();
        put_into_empty(&mut self.s1, s0);
        put_into_empty(&mut self.s0, Some(Box::new((k, v))));
        self.clamp_above();

        None
    }

    pub fn pop_lru(&mut self) -> Option<(K, V)> {
        if self.ghost > 0 && (self.above as usize) >= self.slots() {
            panic!("VERIF-MODEL-BOUND: the lru stand-in would have to pop an untracked entry");
        }
        let e = if self.s2.is_some() {
            self.s2.take()
        } else if self.s1.is_some() {
            self.s1.take()
        } else {
            self.s0.take()
        };
        self.clamp_above();
        e.map(|b| *b)
    }

    fn clamp_above(&mut self) {
        let m = self.slots() as u8;
        if self.above > m {
            self.above = m;
        }
    }

    pub fn pop(&mut self, k: &K) -> Option<V> {
        if self.promote(k) {
            self.above -= 1;
            let hot = self.s0.take();
            self.s0 = self.s1.take();
            self.s1 = self.s2.take();
            hot.map(|e| (*e).1)
        } else {
            None
        }
    }

    pub fn clear(&mut self) {
        self.s0 = None;
        self.s1 = None;
        self.s2 = None;
        self.ghost = 0;
        self.above = 0;
    }

    pub fn iter(&self) -> Iter<'_, K, V> {
        if self.ghost > 0 {
            panic!("VERIF-MODEL-BOUND: the lru stand-in cannot iterate untracked entries");
        }
        Iter { a: self.s0.as_deref(), b: self.s1.as_deref(), c: self.s2.as_deref() }
    }
}

/// MRU-first iterator; shifts its three references down on every `next`.
pub struct Iter<'a, K, V> {
    a: Option<&'a (K, V)>,
    b: Option<&'a (K, V)>,
    c: Option<&'a (K, V)>,
}

impl<'a, K, V> Iterator for Iter<'a, K, V> {
    type Item = (&'a K, &'a V);

    fn next(&mut self) -> Option<Self::Item> {
        let out = self.a.take();
        self.a = self.b.take();
        self.b = self.c.take();
        out.map(|e| (&e.0, &e.1))
    }

    fn size_hint(&self) -> (usize, Option<usize>) {
        let n = if self.a.is_none() {
            0
        } else if self.b.is_none() {
            1
        } else if self.c.is_none() {
            2
        } else {
            3
        };
        (n, Some(n))
    }
}

impl<K, V> ExactSizeIterator for Iter<'_, K, V> {}
