// Layer S — write tokens (C15): token = CRC32C(ip octets || 20-byte secret), big-endian; accepted
// iff it equals the token made with the current or the previous secret for the presenter's IP.
// CRC32C written bit by bit from its definition (reflected polynomial 0x82F63B78), independent of
// the `crc` crate.

pub fn crc_bit(crc: u32) -> u32 {
    if crc & 1 == 1 { (crc >> 1) ^ 0x82F6_3B78 } else { crc >> 1 }
}

pub fn crc_byte(crc: u32, byte: u8) -> u32 {
    crc_bit(crc_bit(crc_bit(crc_bit(crc_bit(crc_bit(crc_bit(crc_bit(crc ^ (byte as u32)))))))))
}
