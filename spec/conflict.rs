// Layer S — local write-conflict rules for put_mutable (C17), from the property statement.
// Result codes: 0 = Ok, in-flight write kept; 1 = Ok, in-flight write superseded (removed);
// 10 = NotMostRecent; 11 = ConflictRisk; 12 = CasFailed.
//
// "an identical item is accepted and both calls succeed; an item with lower seq fails with
//  NotMostRecent; a different item without cas fails with ConflictRisk; with cas equal to the
//  in-flight seq it supersedes the in-flight write; with any other cas it fails with CasFailed."
pub fn conflict(has_inflight: bool, same_item: bool, inflight_seq: i64, seq: i64, has_cas: bool, cas: i64) -> u8 {
    if !has_inflight { 0 }
    else if same_item { 0 }
    else if seq < inflight_seq { 10 }
    else if !has_cas { 11 }
    else if cas == inflight_seq { 1 }
    else { 12 }
}
