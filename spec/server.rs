// Layer S — what a storing node does with one write or read (C03, C04), written from the property
// statements. Plain data only. `item_ok` for a mutable put means: the signature verifies under k
// AND target == SHA1(k || salt). Codes are the BEP error codes; 0 means accepted.
//
// The statements fix WHICH writes are accepted and which error codes may answer a refused one; they
// do not fix a precedence between two simultaneous reasons for refusal, so refusal is specified as
// "the code of one of the reasons that apply".

pub fn put_mutable_accept(token_ok: bool, vlen: usize, salt_len: usize, has_prev: bool, prev_seq: i64, seq: i64, has_cas: bool, cas: i64, item_ok: bool) -> bool {
    token_ok && vlen <= 1000 && salt_len <= 64 && item_ok && !(has_prev && has_cas && cas != prev_seq) && !(has_prev && seq < prev_seq)
}

pub fn put_mutable_code_allowed(code: i32, token_ok: bool, vlen: usize, salt_len: usize, has_prev: bool, prev_seq: i64, seq: i64, has_cas: bool, cas: i64, item_ok: bool) -> bool {
    (code == 203 && !token_ok)
        || (code == 205 && vlen > 1000)
        || (code == 207 && salt_len > 64)
        || (code == 301 && has_prev && has_cas && cas != prev_seq)
        || (code == 302 && has_prev && seq < prev_seq)
        || (code == 206 && !item_ok)
}

// stored seq after the call (has, seq): an accepted put stores its own seq, a refused one changes nothing
pub fn put_mutable_next_has(accept: bool, has_prev: bool) -> bool {
    accept || has_prev
}

pub fn put_mutable_next_seq(accept: bool, prev_seq: i64, seq: i64) -> i64 {
    if accept { seq } else { prev_seq }
}

pub fn put_immutable_accept(token_ok: bool, vlen: usize, hash_ok: bool) -> bool {
    token_ok && vlen <= 1000 && hash_ok
}

pub fn put_immutable_code_allowed(code: i32, token_ok: bool, vlen: usize, hash_ok: bool) -> bool {
    (code == 203 && !token_ok) || (code == 205 && vlen > 1000) || (code == 203 && !hash_ok)
}

// get of a mutable item: 0 = no values, 1 = only the stored seq, 2 = the stored item in full
pub fn get_mutable_kind(present: bool, stored_seq: i64, has_filter: bool, filter: i64) -> u8 {
    if !present { 0 } else if has_filter && filter >= stored_seq { 1 } else { 2 }
}

// signed announce: |now - t| <= 45 s (in microseconds)
pub fn timestamp_ok(now_us: u64, t_us: u64) -> bool {
    if now_us >= t_us { now_us - t_us <= 45000000 } else { t_us - now_us <= 45000000 }
}
