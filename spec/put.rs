// Layer S — outcome of a put (C08, C17 last sentence, C06 "started"), from the property statements.
// Outcome codes: 0 = not finished yet (Ok(false)); 1 = Ok(true) "stored"; 2 = Err(query error:
// timeout / error response / no closest nodes); 301 = Err(CasFailed); 302 = Err(NotMostRecent).

/// `top_code`/`top_count`: the error code reported most often so far and how often (0 if none).
/// `sent`: number of store requests sent; `done`: sent > 0 and none of them is still in flight.
pub fn put_outcome(is_mutable: bool, done: bool, acks: u64, top_code: i32, top_count: u64, sent: u64) -> i32 {
    if done {
        if acks >= 1 { 1 }
        else if is_mutable && top_count >= 1 && top_code == 301 { 301 }
        else if is_mutable && top_count >= 1 && top_code == 302 { 302 }
        else { 2 }
    } else if is_mutable && (top_code == 301 || top_code == 302) && top_count >= sent / 2 + 1 {
        top_code
    } else {
        0
    }
}

/// A put is done iff it sent at least one request and none is in flight any more.
pub fn put_done(sent: u64, still_in_flight: u64) -> bool {
    sent > 0 && still_in_flight == 0
}
