// Layer S — step specification for node-id arithmetic (C19), written from the property
// statement and from BEP 42, independently of src/common/id.rs and of the `crc` crate.
// Shared subset: pure functions over plain data, no loops (bounded recursion instead).

/// Number of leading bits (0..=8) on which two bytes agree, computed bit by bit.
pub fn common_prefix_bits_u8(a: u8, b: u8) -> u8 {
    if (a ^ b) & 0x80 != 0 { 0 }
    else if (a ^ b) & 0x40 != 0 { 1 }
    else if (a ^ b) & 0x20 != 0 { 2 }
    else if (a ^ b) & 0x10 != 0 { 3 }
    else if (a ^ b) & 0x08 != 0 { 4 }
    else if (a ^ b) & 0x04 != 0 { 5 }
    else if (a ^ b) & 0x02 != 0 { 6 }
    else if (a ^ b) & 0x01 != 0 { 7 }
    else { 8 }
}

/// One step of the reflected CRC-32C (Castagnoli, polynomial 0x1EDC6F41, reflected 0x82F63B78).
pub fn crc32c_bit(crc: u32) -> u32 {
    if crc & 1 == 1 { (crc >> 1) ^ 0x82F6_3B78 } else { crc >> 1 }
}

/// Feed one byte, bit by bit, LSB first.
pub fn crc32c_byte(crc: u32, byte: u8) -> u32 {
    crc32c_bit(crc32c_bit(crc32c_bit(crc32c_bit(crc32c_bit(crc32c_bit(crc32c_bit(crc32c_bit(
        crc ^ (byte as u32),
    ))))))))
}

/// CRC-32C of four bytes (init 0xFFFFFFFF, final xor 0xFFFFFFFF).
pub fn crc32c_4(b0: u8, b1: u8, b2: u8, b3: u8) -> u32 {
    crc32c_byte(crc32c_byte(crc32c_byte(crc32c_byte(0xFFFF_FFFF, b0), b1), b2), b3) ^ 0xFFFF_FFFF
}

/// BEP 42: crc32c((ip & 0x030f3fff) | (r << 29)) where only the low 3 bits of r survive the
/// shift; the first 21 bits of a secure node id must equal the first 21 bits of this value.
pub fn bep42_crc(ip: u32, r: u8) -> u32 {
    crc32c_4(
        ((((ip & 0x030f_3fff) | (((r & 0x7) as u32) << 29)) >> 24) & 0xff) as u8,
        ((((ip & 0x030f_3fff) | (((r & 0x7) as u32) << 29)) >> 16) & 0xff) as u8,
        ((((ip & 0x030f_3fff) | (((r & 0x7) as u32) << 29)) >> 8) & 0xff) as u8,
        (((ip & 0x030f_3fff) | (((r & 0x7) as u32) << 29)) & 0xff) as u8,
    )
}

/// Exempt addresses (BEP 42: local networks): 10/8, 172.16/12, 192.168/16, 169.254/16, 127/8.
pub fn bep42_exempt(ip: u32) -> bool {
    (ip >> 24) == 10
        || (ip >> 20) == 0xAC1
        || (ip >> 16) == 0xC0A8
        || (ip >> 16) == 0xA9FE
        || (ip >> 24) == 127
}

/// id is valid for ip: exempt, or the first 21 bits of the id equal the first 21 bits of the crc
/// computed with r = last byte of the id.
pub fn bep42_valid(id0: u8, id1: u8, id2: u8, id19: u8, ip: u32) -> bool {
    bep42_exempt(ip)
        || ((bep42_crc(ip, id19) >> 24) as u8 == id0
            && ((bep42_crc(ip, id19) >> 16) & 0xff) as u8 == id1
            && ((bep42_crc(ip, id19) >> 8) & 0xf8) as u8 == (id2 & 0xf8))
}

/// Value of an ASCII hex digit, or 255.
pub fn hex_val(c: u8) -> u8 {
    if c >= b'0' && c <= b'9' { c - b'0' }
    else if c >= b'a' && c <= b'f' { c - b'a' + 10 }
    else if c >= b'A' && c <= b'F' { c - b'A' + 10 }
    else { 255 }
}
