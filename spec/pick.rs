// Layer S — get_mutable_most_recent (C16), from the property statement: the result has the
// maximum seq over all delivered items, ties between different values of equal seq are broken
// towards the greatest value, None only if nothing was delivered.

/// Does a newly delivered item replace the best one so far?
/// `item_value_greater`: the new item's value is (lexicographically) greater than the best's.
pub fn pick_takes_new(has_best: bool, best_seq: i64, item_seq: i64, item_value_greater: bool) -> bool {
    !has_best || item_seq > best_seq || (item_seq == best_seq && item_value_greater)
}
