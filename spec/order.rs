// Layer S — the order in which nodes are returned / accumulated (C11): BEP42-secure nodes first,
// then by XOR distance to the target (compared as 160-bit big-endian numbers). `cmp` is the result of
// that comparison for the pair (a, b): -1 if a is closer, 0 if equidistant (same id), 1 if b is closer.
pub fn before(a_secure: bool, b_secure: bool, cmp: i8) -> bool {
    (a_secure && !b_secure) || (a_secure == b_secure && cmp < 0)
}

// number of nodes take_until_secure returns when the scan stopped after `u` nodes out of `len`
pub fn taken(u: usize, len: usize) -> usize {
    if u >= 20 { if u <= len { u } else { len } } else if 20 <= len { 20 } else { len }
}
