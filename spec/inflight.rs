// Layer S — attribution of replies to outstanding requests (C09), from the property statement:
// "attributed ... only if it carries that request's transaction id and comes from the address
// the request was sent to".

/// Two IPv4 endpoints are the same endpoint.
pub fn same_endpoint(ip_a: u32, port_a: u16, ip_b: u32, port_b: u16) -> bool {
    ip_a == ip_b && port_a == port_b
}

/// A reply is attributed to an entry iff tid and endpoint both match and the entry is not expired.
pub fn attributed(entry_tid: u32, entry_ip: u32, entry_port: u16, entry_expired: bool,
                  msg_tid: u32, from_ip: u32, from_port: u16) -> bool {
    entry_tid == msg_tid && same_endpoint(entry_ip, entry_port, from_ip, from_port) && !entry_expired
}
