//! Stand-ins for `std::collections::{HashMap, HashSet}` used ONLY under cfg(kani) in the scratch copy
//! (the `use std::collections::..` lines of core.rs, core/iterative_query.rs and actor.rs are
//! cfg-switched to this module; see DESIGN.md section 3).
//!
//! std's tables (hashbrown + SipHash + RandomState) are out of CBMC's reach (measured: one lookup in
//! a one-entry map with a concrete key times out at 900 s). These are *assumed contracts on std made
//! executable*: association lists of at most TWO entries in named, inline slots `a` (older) and `b`,
//! straight-line code only. Iteration order is slot order (std's is unspecified, so any property that
//! held only for one order would be a defect of the caller anyway).
//!
//! Model bound: a third distinct key panics with a message starting `VERIF-MODEL-BOUND`, which the
//! driver reports as undecided (exit 2), never as a violation.
#![allow(dead_code)]

/// `*slot = v` for a slot that is known to be empty: the old (empty) value is forgotten instead of
/// dropped, so CBMC does not have to execute drop glue (a loop over a phantom Vec<Node> with 22 Arc
/// decrements, say) for a value whose emptiness it cannot see statically.
fn put_into_empty<T>(slot: &mut Option<T>, v: Option<T>) {
    core::mem::forget(core::mem::replace(slot, v));
}

pub struct HashMap<K, V> {
    // INLINE slots: CBMC does not propagate constants through heap objects (a boxed entry made the
    // stored query's enum discriminants and Vec lengths symbolic, and Core::handle_response then
    // cloned every variant with symbolic-size allocations: > 28 GB). The owner (Core) is a stack
    // local in every harness, so inline entries keep their constants.
    pub a: Option<(K, V)>,
    pub b: Option<(K, V)>,
}

impl<K, V> core::fmt::Debug for HashMap<K, V> {
    fn fmt(&self, f: &mut core::fmt::Formatter<'_>) -> core::fmt::Result {
        f.write_str("HashMap(model)")
    }
}

fn hit<K: PartialEq, V>(slot: &Option<(K, V)>, k: &K) -> bool {
    match slot {
        Some(e) => e.0 == *k,
        None => false,
    }
}

impl<K: PartialEq, V> HashMap<K, V> {
    pub fn new() -> Self {
        HashMap { a: None, b: None }
    }

    pub fn len(&self) -> usize {
        (if self.a.is_some() { 1 } else { 0 }) + (if self.b.is_some() { 1 } else { 0 })
    }

    pub fn is_empty(&self) -> bool {
        self.a.is_none() && self.b.is_none()
    }

    pub fn contains_key(&self, k: &K) -> bool {
        hit(&self.a, k) || hit(&self.b, k)
    }

    pub fn get(&self, k: &K) -> Option<&V> {
        if hit(&self.a, k) {
            self.a.as_ref().map(|e| &e.1)
        } else if hit(&self.b, k) {
            self.b.as_ref().map(|e| &e.1)
        } else {
            None
        }
    }

    pub fn get_mut(&mut self, k: &K) -> Option<&mut V> {
        if hit(&self.a, k) {
            self.a.as_mut().map(|e| &mut e.1)
        } else if hit(&self.b, k) {
            self.b.as_mut().map(|e| &mut e.1)
        } else {
            None
        }
    }

    pub fn insert(&mut self, k: K, v: V) -> Option<V> {
        if hit(&self.a, &k) {
            return self.a.as_mut().map(|e| core::mem::replace(&mut e.1, v));
        }
        if hit(&self.b, &k) {
            return self.b.as_mut().map(|e| core::mem::replace(&mut e.1, v));
        }
        if self.a.is_none() {
            put_into_empty(&mut self.a, Some((k, v)));
        } else if self.b.is_none() {
            put_into_empty(&mut self.b, Some((k, v)));
        } else {
            panic!("VERIF-MODEL-BOUND: the HashMap stand-in holds at most 2 entries");
        }
        None
    }

    pub fn remove(&mut self, k: &K) -> Option<V> {
        if hit(&self.a, k) {
            self.a.take().map(|e| e.1)
        } else if hit(&self.b, k) {
            self.b.take().map(|e| e.1)
        } else {
            None
        }
    }

    pub fn iter(&self) -> Iter<'_, K, V> {
        Iter { a: self.a.as_ref(), b: self.b.as_ref() }
    }

    pub fn iter_mut(&mut self) -> IterMut<'_, K, V> {
        IterMut { a: self.a.as_mut(), b: self.b.as_mut() }
    }

    pub fn values(&self) -> Values<'_, K, V> {
        Values { a: self.a.as_ref(), b: self.b.as_ref() }
    }

    pub fn values_mut(&mut self) -> ValuesMut<'_, K, V> {
        ValuesMut { a: self.a.as_mut(), b: self.b.as_mut() }
    }

    pub fn entry(&mut self, k: K) -> Entry<'_, K, V> {
        Entry { map: self, key: k }
    }
}

pub struct Iter<'a, K, V> {
    a: Option<&'a (K, V)>,
    b: Option<&'a (K, V)>,
}
impl<'a, K, V> Iterator for Iter<'a, K, V> {
    type Item = (&'a K, &'a V);
    fn next(&mut self) -> Option<Self::Item> {
        let out = if self.a.is_some() { self.a.take() } else { self.b.take() };
        out.map(|e| (&e.0, &e.1))
    }
}

pub struct IterMut<'a, K, V> {
    a: Option<&'a mut (K, V)>,
    b: Option<&'a mut (K, V)>,
}
impl<'a, K, V> Iterator for IterMut<'a, K, V> {
    type Item = (&'a K, &'a mut V);
    fn next(&mut self) -> Option<Self::Item> {
        let out = if self.a.is_some() { self.a.take() } else { self.b.take() };
        out.map(|e| (&e.0, &mut e.1))
    }
}

pub struct Values<'a, K, V> {
    a: Option<&'a (K, V)>,
    b: Option<&'a (K, V)>,
}
impl<'a, K, V> Iterator for Values<'a, K, V> {
    type Item = &'a V;
    fn next(&mut self) -> Option<Self::Item> {
        let out = if self.a.is_some() { self.a.take() } else { self.b.take() };
        out.map(|e| &e.1)
    }
}

pub struct ValuesMut<'a, K, V> {
    a: Option<&'a mut (K, V)>,
    b: Option<&'a mut (K, V)>,
}
impl<'a, K, V> Iterator for ValuesMut<'a, K, V> {
    type Item = &'a mut V;
    fn next(&mut self) -> Option<Self::Item> {
        let out = if self.a.is_some() { self.a.take() } else { self.b.take() };
        out.map(|e| &mut e.1)
    }
}

pub struct Entry<'a, K, V> {
    map: &'a mut HashMap<K, V>,
    key: K,
}
impl<'a, K: PartialEq, V> Entry<'a, K, V> {
    pub fn and_modify<F: FnOnce(&mut V)>(self, f: F) -> Self {
        if let Some(v) = self.map.get_mut(&self.key) {
            f(v);
        }
        self
    }

    pub fn or_insert(self, default: V) -> &'a mut V {
        if !self.map.contains_key(&self.key) {
            // cannot return the reference from insert(); look it up again below
            let Entry { map, key } = self;
            if map.a.is_none() {
                put_into_empty(&mut map.a, Some((key, default)));
                return map.a.as_mut().map(|e| &mut e.1).unwrap();
            } else if map.b.is_none() {
                put_into_empty(&mut map.b, Some((key, default)));
                return map.b.as_mut().map(|e| &mut e.1).unwrap();
            } else {
                panic!("VERIF-MODEL-BOUND: the HashMap stand-in holds at most 2 entries");
            }
        }
        let Entry { map, key } = self;
        map.get_mut(&key).unwrap()
    }
}

// ---------------------------------------------------------------------------------------------

pub struct HashSet<T> {
    pub a: Option<T>,
    pub b: Option<T>,
    pub c: Option<T>,
}

impl<T> core::fmt::Debug for HashSet<T> {
    fn fmt(&self, f: &mut core::fmt::Formatter<'_>) -> core::fmt::Result {
        f.write_str("HashSet(model)")
    }
}

impl<T: PartialEq> HashSet<T> {
    pub fn new() -> Self {
        HashSet { a: None, b: None, c: None }
    }

    pub fn len(&self) -> usize {
        (if self.a.is_some() { 1 } else { 0 }) + (if self.b.is_some() { 1 } else { 0 }) + (if self.c.is_some() { 1 } else { 0 })
    }

    pub fn contains(&self, t: &T) -> bool {
        self.a.as_ref() == Some(t) || self.b.as_ref() == Some(t) || self.c.as_ref() == Some(t)
    }

    pub fn insert(&mut self, t: T) -> bool {
        if self.contains(&t) {
            return false;
        }
        if self.a.is_none() {
            self.a = Some(t);
        } else if self.b.is_none() {
            self.b = Some(t);
        } else if self.c.is_none() {
            self.c = Some(t);
        } else {
            panic!("VERIF-MODEL-BOUND: the HashSet stand-in holds at most 3 elements");
        }
        true
    }

    pub fn iter(&self) -> SetIter<'_, T> {
        SetIter { a: self.a.as_ref(), b: self.b.as_ref(), c: self.c.as_ref() }
    }
}

pub struct SetIter<'a, T> {
    a: Option<&'a T>,
    b: Option<&'a T>,
    c: Option<&'a T>,
}
impl<'a, T> Iterator for SetIter<'a, T> {
    type Item = &'a T;
    fn next(&mut self) -> Option<Self::Item> {
        let out = self.a.take();
        self.a = self.b.take();
        self.b = self.c.take();
        out
    }
}

// ---------------------------------------------------------------------------------------------
// BTreeMap<K, V> stand-in for RoutingTable::buckets (src/common/routing_table.rs): an ordered
// association list of at most THREE entries in boxed slots kept sorted by key (a < b < c), with the
// API subset that file uses: new, default, entry().or_default(), get, get_mut, values, iter,
// is_empty, len, clone. (Measured: every RoutingTable-level obligation through std's BTreeMap
// timed out at 900-2400 s or exhausted 10-16 GB.) A fourth distinct key is a VERIF-MODEL-BOUND.
// ---------------------------------------------------------------------------------------------
pub struct BTreeMap<K, V> {
    // INLINE slots (unlike the HashMap stand-in): CBMC does not propagate constants through heap
    // objects, so a boxed (u8, KBucket) entry made every bucket length symbolic and every loop over a
    // bucket ran to the unwinding bound; the entries are small (a key and a Vec header), so moving
    // them on insertion is cheap.
    pub a: Option<(K, V)>,
    pub b: Option<(K, V)>,
    pub c: Option<(K, V)>,
}

impl<K, V> core::fmt::Debug for BTreeMap<K, V> {
    fn fmt(&self, f: &mut core::fmt::Formatter<'_>) -> core::fmt::Result {
        f.write_str("BTreeMap(model)")
    }
}

impl<K, V> Default for BTreeMap<K, V> {
    fn default() -> Self {
        BTreeMap { a: None, b: None, c: None }
    }
}

impl<K: Clone, V: Clone> Clone for BTreeMap<K, V> {
    fn clone(&self) -> Self {
        BTreeMap { a: self.a.clone(), b: self.b.clone(), c: self.c.clone() }
    }
}

impl<K: Ord, V> BTreeMap<K, V> {
    pub fn new() -> Self {
        BTreeMap { a: None, b: None, c: None }
    }

    pub fn len(&self) -> usize {
        (if self.a.is_some() { 1 } else { 0 }) + (if self.b.is_some() { 1 } else { 0 }) + (if self.c.is_some() { 1 } else { 0 })
    }

    pub fn is_empty(&self) -> bool {
        self.a.is_none()
    }

    fn slot_of(&self, k: &K) -> u8 {
        // 0/1/2: the slot holding k; 3: absent. Slots are filled a, then b, then c.
        match &self.a {
            Some(e) if e.0 == *k => return 0,
            _ => {}
        }
        match &self.b {
            Some(e) if e.0 == *k => return 1,
            _ => {}
        }
        match &self.c {
            Some(e) if e.0 == *k => return 2,
            _ => {}
        }
        3
    }

    pub fn get(&self, k: &K) -> Option<&V> {
        match self.slot_of(k) {
            0 => self.a.as_ref().map(|e| &e.1),
            1 => self.b.as_ref().map(|e| &e.1),
            2 => self.c.as_ref().map(|e| &e.1),
            _ => None,
        }
    }

    pub fn get_mut(&mut self, k: &K) -> Option<&mut V> {
        match self.slot_of(k) {
            0 => self.a.as_mut().map(|e| &mut e.1),
            1 => self.b.as_mut().map(|e| &mut e.1),
            2 => self.c.as_mut().map(|e| &mut e.1),
            _ => None,
        }
    }

    pub fn contains_key(&self, k: &K) -> bool {
        self.slot_of(k) != 3
    }

    /// inserts (k, v) keeping a < b < c; k must be absent
    fn insert_new(&mut self, k: K, v: V) {
        let e = (k, v);
        if self.a.is_none() {
            put_into_empty(&mut self.a, Some(e));
        } else if self.b.is_none() {
            if e.0 < self.a.as_ref().unwrap().0 {
                let a = self.a.take();
                put_into_empty(&mut self.b, a);
                put_into_empty(&mut self.a, Some(e));
            } else {
                put_into_empty(&mut self.b, Some(e));
            }
        } else if self.c.is_none() {
            if e.0 < self.a.as_ref().unwrap().0 {
                let b = self.b.take();
                put_into_empty(&mut self.c, b);
                let a = self.a.take();
                put_into_empty(&mut self.b, a);
                put_into_empty(&mut self.a, Some(e));
            } else if e.0 < self.b.as_ref().unwrap().0 {
                let b = self.b.take();
                put_into_empty(&mut self.c, b);
                put_into_empty(&mut self.b, Some(e));
            } else {
                put_into_empty(&mut self.c, Some(e));
            }
        } else {
            panic!("VERIF-MODEL-BOUND: the BTreeMap stand-in holds at most 3 entries");
        }
    }

    pub fn insert(&mut self, k: K, v: V) -> Option<V> {
        match self.get_mut(&k) {
            Some(slot) => Some(core::mem::replace(slot, v)),
            None => {
                self.insert_new(k, v);
                None
            }
        }
    }

    pub fn entry(&mut self, k: K) -> BEntry<'_, K, V> {
        BEntry { map: self, key: k }
    }

    pub fn values(&self) -> BValues<'_, K, V> {
        BValues { a: self.a.as_ref(), b: self.b.as_ref(), c: self.c.as_ref() }
    }

    pub fn iter(&self) -> BIter<'_, K, V> {
        BIter { a: self.a.as_ref(), b: self.b.as_ref(), c: self.c.as_ref() }
    }
}

pub struct BEntry<'a, K, V> {
    map: &'a mut BTreeMap<K, V>,
    key: K,
}
impl<'a, K: Ord + Clone, V: Default> BEntry<'a, K, V> {
    pub fn or_default(self) -> &'a mut V {
        let BEntry { map, key } = self;
        if !map.contains_key(&key) {
            map.insert_new(key.clone(), V::default());
        }
        map.get_mut(&key).unwrap()
    }
}

pub struct BValues<'a, K, V> {
    a: Option<&'a (K, V)>,
    b: Option<&'a (K, V)>,
    c: Option<&'a (K, V)>,
}
impl<'a, K, V> Iterator for BValues<'a, K, V> {
    type Item = &'a V;
    fn next(&mut self) -> Option<Self::Item> {
        let out = self.a.take();
        self.a = self.b.take();
        self.b = self.c.take();
        out.map(|e| &e.1)
    }
}

pub struct BIter<'a, K, V> {
    a: Option<&'a (K, V)>,
    b: Option<&'a (K, V)>,
    c: Option<&'a (K, V)>,
}
impl<'a, K, V> Iterator for BIter<'a, K, V> {
    type Item = (&'a K, &'a V);
    fn next(&mut self) -> Option<Self::Item> {
        let out = self.a.take();
        self.a = self.b.take();
        self.b = self.c.take();
        out.map(|e| (&e.0, &e.1))
    }
}
