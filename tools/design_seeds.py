#!/usr/bin/env python3
"""Copies the per-property summary of seeded/MATRIX.md into DESIGN.md between the SEEDS markers."""
import re, subprocess
subprocess.run(['python3', '/verif/tools/seed_matrix.py'], capture_output=True)
m = open('/verif/seeded/MATRIX.md').read()
i = m.index('| property | caught')
tail = m[i:].strip()
total = [l for l in m.splitlines() if ' caught, ' in l][-1]
d = open('/verif/DESIGN.md').read()
d = re.sub(r'<!-- SEEDS-BEGIN -->.*?<!-- SEEDS-END -->', '<!-- SEEDS-BEGIN -->\n' + total + '\n\n' + tail + '\n<!-- SEEDS-END -->', d, flags=re.S)
open('/verif/DESIGN.md', 'w').write(d)
print(total)
