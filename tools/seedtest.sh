#!/bin/bash
# tools/seedtest.sh <seed-dir-name> [check args]  — apply a confirmed seeded change to /repo, run the property's
# check, undo the change straight afterwards. Prints the check's tail and its exit code.
set -u
seed=$1; shift
pid=${SEED_PID:-${seed%%-*}}
cd /repo && git apply /verif/seeded/$seed/patch.diff || { echo "patch does not apply"; exit 3; }
trap 'git -C /repo checkout -- . ' EXIT
cd /verif && ./check $pid "$@" > /tmp/seedtest.$seed.$pid.log 2>&1; rc=$?
grep -E "VIOLATION|UNDECIDED|fail |undecided|OK:" /tmp/seedtest.$seed.$pid.log | head -8
echo "SEED $seed property=$pid exit=$rc"
