#!/bin/bash
# Runs the repository's pinned baseline (79 stable tests, /root/.vp/BASELINE.json) with no
# verification cfg set (the machinery's guard `cfg(kani)` is only ever set by cargo-kani).
# Exit 0 iff every stable test passed (a test that fails is retried up to twice on its own:
# the suite opens real UDP sockets on loopback and two of its tests are listed as flaky upstream).
set -u
cd /repo || exit 2
export CARGO_NET_OFFLINE=true
OUT=$(mktemp -d /var/tmp/baseline.XXXXXX); trap 'rm -rf "$OUT"' EXIT
if cargo nextest --version >/dev/null 2>&1 && [ -f /w/lib/nextest.toml ]; then
  cargo nextest run --workspace --no-fail-fast --tool-config-file pb:/w/lib/nextest.toml --profile pb --test-threads 8 --offline >"$OUT/log" 2>&1
  JUNIT=/repo/target/nextest/pb/junit.xml
else
  cargo test --workspace --no-fail-fast --offline --lib >"$OUT/log" 2>&1
  JUNIT=""
fi
python3 - "$OUT/log" "$JUNIT" <<'PY'
import json,sys,re,subprocess,xml.etree.ElementTree as ET
log,junit=sys.argv[1],sys.argv[2]
stable=json.load(open('/root/.vp/BASELINE.json'))['stable_pass']
passed=set(); failed=set()
if junit:
    try:
        for tc in ET.parse(junit).getroot().iter('testcase'):
            name='dht::'+tc.get('name')
            bad=any(ch.tag in('failure','error') for ch in tc)
            (failed if bad else passed).add(name)
    except Exception as e:
        print('cannot parse junit:',e); print(open(log).read()[-3000:]); sys.exit(2)
else:
    for l in open(log):
        m=re.match(r'test (\S+) \.\.\. (ok|FAILED)',l)
        if m: (passed if m.group(2)=='ok' else failed).add('dht::'+m.group(1))
missing=[t for t in stable if t not in passed]
still=[]
for t in missing:
    short=t[len('dht::'):]
    ok=False
    for _ in range(2):
        r=subprocess.run(['cargo','test','--offline','--lib','--',short,'--exact'],cwd='/repo',capture_output=True,text=True)
        if re.search(r'test result: ok\. 1 passed',r.stdout): ok=True;break
    if not ok: still.append(t)
print(f'baseline: {len(stable)-len(still)}/{len(stable)} stable tests pass ({len(missing)} needed a retry)')
for t in still: print('BASELINE-FAIL',t)
if not passed and not missing==[]:
    print(open(log).read()[-3000:])
sys.exit(1 if still else 0)
PY
