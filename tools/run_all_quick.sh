#!/bin/bash
# runs every claimed check's quick command on /repo as it is; one line per check in /tmp/allquick.summary
cd /verif
: > /tmp/allquick.summary
for p in ${@:-C19 C15 C16 C10 C11 C09 C17 C18 C04 C06 C07 C08 C12 C14 C20 C03 C02 C05}; do
  t0=$(date +%s)
  ./check $p --tier quick > /tmp/allquick.$p.log 2>&1; rc=$?
  echo "$p exit=$rc wall=$(( $(date +%s) - t0 ))s" >> /tmp/allquick.summary
done
