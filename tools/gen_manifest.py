#!/usr/bin/env python3
"""Regenerates /verif/MANIFEST.json from /verif/units/*.json and /verif/manifest_meta.json."""
import json, os, glob
V='/verif'
meta=json.load(open(f'{V}/manifest_meta.json'))
props=[json.loads(l)['id'] for l in open(f'{V}/properties.jsonl')]
checks=[]; na=[]
for pid in props:
    up=f'{V}/units/{pid}.json'
    m=meta['properties'].get(pid,{})
    if os.path.exists(up) and not m.get('not_applicable'):
        u=json.load(open(up))
        hs=u.get('harnesses',[])
        q=[h for h in hs if h.get('tier','quick')=='quick']; t=[h for h in hs if h.get('tier')=='thorough']; un=[h for h in hs if h.get('tier')=='unreached']
        comp=lambda l: sum(1 for h in l if h['kind'] in ('total','contract'))
        tiers=(f" Quick tier: {len(q)} Kani obligations ({comp(q)} complete, {len(q)-comp(q)} bounded, bounds in the evidence file)"
               f" and {len(u.get('verus',[]))} Verus lemma file(s); the thorough tier adds {len(t)} obligations ({comp(t)} complete) that need more than the quick tier's 15 minutes or 10 GB."
               + (f" {len(un)} further obligations are written but were never completed by CBMC within 28-44 GB / an hour (tier `unreached`: not run, listed in the evidence; what they would decide is NOT decided)." if un else ""))
        note='; '.join(u.get('assumptions',[]))
        if u.get('not_decided'): note+=' || NOT DECIDED: '+'; '.join(u['not_decided'])
        checks.append({
          "property_id":pid,
          "quick_cmd":f"./check {pid} --tier quick",
          "thorough_cmd":f"./check {pid} --tier thorough",
          "evidence_file":f"/verif/evidence/{pid}.json",
          "replay_cmd_template":f"./check {pid} --replay {{path}}",
          "engine":"kani-contracts+verus-lemmas",
          "level_claimed":{"category":u.get('level','other'),"text":m.get('level_text',u.get('explanation',''))+tiers,"design_ref":m.get('design_ref','DESIGN.md section 5')},
          "level_note":m.get('level_note',note),
          "technique":m.get('technique',"contract-based deductive verification: Kani function contracts / full-domain harnesses on the real code (CBMC), Verus lemmas over the step specifications"),
        })
    else:
        na.append({"property_id":pid,"reason":m.get('na_reason','not yet under contract in this build (see DESIGN.md section 5)')})
man={
 "version":1,
 "setup_cmd":"./setup.sh",
 "hooks":{"guard":"kani","enable":"cargo kani sets cfg(kani); harness modules and contract attributes are spliced into a scratch copy of /repo at run time (./check <ID> --show-splice prints the diff), nothing is committed to /repo for them",
          "baseline_off_cmd":"/verif/tools/baseline.sh","source_commits":[],"add_only":True},
 "engines":[{"name":"kani-contracts+verus-lemmas","path":"/verif/lib/driver.py","serves_properties":[c['property_id'] for c in checks],
   "kind_free_text":"Kani 0.68 (CBMC 6.11) function contracts and full-domain proof harnesses on the real crate; Verus 0.2026.09.13 lemmas over the shared step specifications"}],
 "checks":checks,
 "not_applicable":na,
 "notes":meta.get('notes','')
}
json.dump(man,open(f'{V}/MANIFEST.json','w'),indent=1)
print(len(checks),'checks;',len(na),'not applicable')
