#!/usr/bin/env python3
"""tools/seedrun.py <seed> [<seed> ...] [--pid P] [--tier quick]
Runs the property's check against a confirmed seeded change WITHOUT touching /repo: a detached git
worktree of /repo HEAD is created under /tmp/seedwt/<seed>, the patch is applied there, and the check
runs with VERIF_REPO pointing at it and VERIF_OUT at /tmp/seedout/<seed> (so /verif/evidence and
/verif/replays of the unchanged tree are not overwritten). The worktree is removed afterwards.
Appends one JSON line per run to /verif/seeded/results.jsonl."""
import json, os, subprocess, sys, time, re, shutil
args=[a for a in sys.argv[1:] if not a.startswith('--')]
opt={sys.argv[i]:sys.argv[i+1] for i in range(1,len(sys.argv)-1) if sys.argv[i].startswith('--')}
seeds=[a for a in args if a not in opt.values()]
tier=opt.get('--tier','quick')
for seed in seeds:
    pid=opt.get('--pid', seed.split('-')[0])
    wt=f'/tmp/seedwt/{seed}.{pid}'; out=f'/tmp/seedout/{seed}.{pid}'
    subprocess.run(['git','-C','/repo','worktree','remove','--force',wt],capture_output=True)
    shutil.rmtree(wt,ignore_errors=True); shutil.rmtree(out,ignore_errors=True); os.makedirs(out,exist_ok=True)
    subprocess.run(['git','-C','/repo','worktree','add','-q','--detach',wt,'HEAD'],check=True)
    r=subprocess.run(['git','-C',wt,'apply',f'/verif/seeded/{seed}/patch.diff'],capture_output=True,text=True)
    rec={'seed':seed,'property':pid,'tier':tier,'at':time.strftime('%Y-%m-%dT%H:%M:%S')}
    if r.returncode!=0:
        rec['result']='patch does not apply: '+r.stderr[-200:]
    else:
        t0=time.time()
        env=dict(os.environ,VERIF_REPO=wt,VERIF_OUT=out)
        p=subprocess.run(['/verif/check',pid,'--tier',tier]+([ '--only',opt['--only']] if '--only' in opt else []),capture_output=True,text=True,env=env,cwd='/verif')
        rec['exit']=p.returncode; rec['wall_s']=round(time.time()-t0)
        lines=[l for l in p.stdout.splitlines() if re.search(r'VIOLATION|UNDECIDED|KNOWN-FINDING|\s(fail|undecided)\s',l)]
        rec['lines']=[l[:300] for l in lines[:12]]
        rec['result']={0:'missed',1:'caught',2:'undecided'}.get(p.returncode,'?')
        open(f'{out}/stdout.log','w').write(p.stdout+p.stderr)
    subprocess.run(['git','-C','/repo','worktree','remove','--force',wt],capture_output=True)
    shutil.rmtree(wt,ignore_errors=True)
    open('/verif/seeded/results.jsonl','a').write(json.dumps(rec)+'\n')
    print(json.dumps(rec),flush=True)
