#!/usr/bin/env python3
"""Renders /verif/seeded/results.jsonl (latest run per seed and property) as a markdown table and
writes /verif/seeded/MATRIX.md."""
import json, re, os
last = {}
for l in open('/verif/seeded/results.jsonl'):
    r = json.loads(l); last[(r['seed'], r['property'])] = r
rows = []
for (seed, pid), r in sorted(last.items()):
    meta = {}
    try: meta = json.load(open(f'/verif/seeded/{seed}/meta.json'))
    except Exception: pass
    catch = ''
    for ln in r.get('lines', []):
        m = re.search(r'\s(fail)\s+\S+\s+(\S+)', ln)
        if m and '_finding_' not in m.group(2): catch = m.group(2); break
        m = re.search(r'fail\s+verus\s+(\S+)', ln)
        if m: catch = m.group(1); break
    why = ''
    if r['result'] == 'undecided':
        why = next((ln for ln in r.get('lines', []) if 'UNDECIDED' in ln), '')[:140]
    rows.append((seed, pid, r['result'], catch, (meta.get('summary') or '')[:150].replace('|', '/').replace('\n', ' '), why.replace('|', '/')))
out = ['| seeded change | property | quick check | failing obligation | what the change does |', '|---|---|---|---|---|']
for s, p, res, c, summ, why in rows:
    out.append(f'| {s} | {p} | {res} | {c or why} | {summ} |')
n = len(rows); caught = sum(1 for r in rows if r[2] == 'caught'); und = sum(1 for r in rows if r[2] == 'undecided')
out.append(''); out.append(f'{caught} of {n} caught, {und} undecided (exit 2), {n - caught - und} missed.')
by = {}
for s_, p_, res, c, summ, why in rows:
    by.setdefault(p_, {'caught': [], 'undecided': [], 'missed': []})[res if res in ('caught', 'undecided', 'missed') else 'missed'].append((s_, c))
out += ['', '| property | caught (by which obligation) | undecided (exit 2) | missed |', '|---|---|---|---|']
for p_ in sorted(by):
    b = by[p_]
    out.append(f"| {p_} | " + '; '.join(f"{s_} ({c})" for s_, c in b['caught']) + ' | ' + ', '.join(s_ for s_, _ in b['undecided']) + ' | ' + ', '.join(s_ for s_, _ in b['missed']) + ' |')
open('/verif/seeded/MATRIX.md', 'w').write('\n'.join(out) + '\n')
print('\n'.join(out[-3:]))
