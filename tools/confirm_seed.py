#!/usr/bin/env python3
"""Confirms seeded changes produced by independent sub-agents (never run inside /repo):
   for each /tmp/seed/out/<ID>/<mN>/ : in a scratch worktree of /repo HEAD
     1. demo alone passes, 2. demo + patch fails, 3. patch alone: builds, the 79-test baseline passes.
   Confirmed seeds are copied to /verif/seeded/<ID>-<mN>/ with the confirmation recorded in meta.json."""
import json, os, subprocess, sys, shutil, re, glob
WT='/tmp/confirm-wt'; TGT='/tmp/confirm-target'
env=dict(os.environ, CARGO_NET_OFFLINE='true', CARGO_TARGET_DIR=TGT)
def sh(cmd, cwd=WT, timeout=1200):
    r=subprocess.run(cmd,shell=True,cwd=cwd,capture_output=True,text=True,env=env,timeout=timeout)
    return r.returncode, r.stdout+r.stderr
def clean():
    sh('git checkout -q -- . && git clean -fdq')
def demo(name):
    rc,out=sh(f'cargo test --offline --lib {name} 2>&1')
    m=re.search(r'test result: (\w+)\. (\d+) passed; (\d+) failed',out)
    if not m: return 'error', out[-1500:]
    if int(m.group(2))+int(m.group(3))==0: return 'notfound', out[-500:]
    return ('pass' if m.group(1)=='ok' else 'fail'), out[-1500:]
def baseline():
    stable=[t[len('dht::'):] for t in json.load(open('/root/.vp/BASELINE.json'))['stable_pass']]
    rc,out=sh('cargo nextest run --offline --no-fail-fast --test-threads 8 2>&1')
    failed=set(re.findall(r'^\s+FAIL \[.*?\] dht (\S+)',out,re.M))|set(re.findall(r'^\s+FAIL \[.*?\]\s+dht::?(\S+)',out,re.M))
    if 'error: could not compile' in out or 'error[E' in out: return False,'compile error: '+out[-800:]
    bad=[t for t in stable if t in failed]
    still=[]
    for t in bad:
        ok=False
        for _ in range(2):
            rc,o=sh(f'cargo test --offline --lib -- {t} --exact 2>&1')
            if 'test result: ok. 1 passed' in o: ok=True;break
        if not ok: still.append(t)
    if not re.search(r'Summary .* tests run',out): return False,'no summary: '+out[-800:]
    return (not still), ('failed: '+', '.join(still) if still else f'79 stable pass ({len(bad)} retried)')
def main():
    dirs=sys.argv[1:] or sorted(glob.glob('/tmp/seed/out/C*/m*'))
    if not os.path.exists(WT):
        subprocess.run(['git','-C','/repo','worktree','add','-q','--detach',WT,'HEAD'],check=True)
    else:
        sh('git checkout -q --detach '+subprocess.run(['git','-C','/repo','rev-parse','HEAD'],capture_output=True,text=True).stdout.strip())
    for d in dirs:
        pid=d.rstrip('/').split('/')[-2]; mn=d.rstrip('/').split('/')[-1]
        dst=f'/verif/seeded/{pid}-{mn}'
        name=f'seeded_demo_{pid}_{mn}'
        rec={'seed':f'{pid}-{mn}'}
        try:
            meta=json.load(open(f'{d}/meta.json'))
        except Exception as e:
            meta={'meta_error':str(e)}
        clean()
        rc,o=sh(f'git apply {d}/demo.diff')
        if rc!=0: rec['verdict']='demo.diff does not apply: '+o[-300:]; print(json.dumps(rec)); continue
        rec['demo_clean'],o1=demo(name)
        rc,o=sh(f'git apply {d}/patch.diff')
        if rc!=0: rec['verdict']='patch.diff does not apply with demo: '+o[-300:]; print(json.dumps(rec)); continue
        rec['demo_patched'],o2=demo(name)
        clean()
        rc,o=sh(f'git apply {d}/patch.diff')
        if rc!=0: rec['verdict']='patch.diff does not apply alone: '+o[-300:]; print(json.dumps(rec)); continue
        ok,why=baseline(); rec['baseline_with_patch']=why
        clean()
        good = rec['demo_clean']=='pass' and rec['demo_patched']=='fail' and ok
        rec['verdict']='confirmed' if good else 'rejected'
        if good:
            os.makedirs(dst,exist_ok=True)
            shutil.copy(f'{d}/patch.diff',dst); shutil.copy(f'{d}/demo.diff',dst)
            meta['confirmed_by_main_session']={'commit':subprocess.run(['git','-C','/repo','rev-parse','--short','HEAD'],capture_output=True,text=True).stdout.strip(),
              'demo_on_clean_tree':rec['demo_clean'],'demo_with_patch':rec['demo_patched'],'baseline_with_patch':why,
              'ran':[f'git apply demo.diff; cargo test --offline --lib {name} (pass)','git apply patch.diff; same test (fail)','patch alone: cargo nextest run --offline (79 stable tests pass)'],
              'demo_failure_excerpt':o2[-600:]}
            json.dump(meta,open(f'{dst}/meta.json','w'),indent=1)
        else:
            rec['detail']=(o1[-300:] if rec['demo_clean']!='pass' else o2[-300:])
        print(json.dumps(rec),flush=True)
main()
