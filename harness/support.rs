// Shared harness support, `include!`d into harness modules that need a ghost clock.
// std's unix `Instant` is `Timespec { tv_sec: i64, tv_nsec: Nanoseconds(u32) }`; the size
// assertion below makes a layout change an explicit failure rather than silent nonsense.
#[allow(dead_code)]
pub(crate) mod clock {
    use std::time::{Duration, Instant};

    /// ghost monotonic clock, in milliseconds since an arbitrary origin
    pub static mut NOW_MS: u64 = 100_000_000;

    #[repr(C)]
    struct RawInstant {
        secs: i64,
        nanos: u32,
    }

    pub fn at_ms(ms: u64) -> Instant {
        assert!(core::mem::size_of::<Instant>() == core::mem::size_of::<RawInstant>());
        unsafe {
            core::mem::transmute(RawInstant {
                secs: (ms / 1000) as i64,
                nanos: ((ms % 1000) * 1_000_000) as u32,
            })
        }
    }

    /// stub for std::time::Instant::now
    pub fn mock_now() -> Instant {
        at_ms(unsafe { NOW_MS })
    }

    /// stub for std::time::Instant::elapsed. Computed by hand from the two (secs, nanos) pairs:
    /// std's `duration_since` goes through the RECURSIVE `Timespec::sub_timespec`, which CBMC unwinds
    /// without bound when the comparison is symbolic (measured: a three-line harness did not finish
    /// in 20 minutes). Instants in the future of the ghost clock saturate to zero, as std does.
    pub fn mock_elapsed(this: &Instant) -> Duration {
        assert!(core::mem::size_of::<Instant>() == core::mem::size_of::<RawInstant>());
        let t: RawInstant = unsafe { core::mem::transmute_copy(this) };
        let now = now_ms();
        let ns = (now / 1000) as i64;
        let nn = ((now % 1000) * 1_000_000) as u32;
        if ns > t.secs || (ns == t.secs && nn >= t.nanos) {
            if nn >= t.nanos {
                Duration::new((ns - t.secs) as u64, nn - t.nanos)
            } else {
                Duration::new((ns - t.secs - 1) as u64, nn + 1_000_000_000 - t.nanos)
            }
        } else {
            Duration::new(0, 0)
        }
    }

    pub fn set_now_ms(ms: u64) {
        unsafe { NOW_MS = ms }
    }

    pub fn now_ms() -> u64 {
        unsafe { NOW_MS }
    }

    /// an Instant `age_ms` before the ghost now
    pub fn ago_ms(age_ms: u64) -> Instant {
        at_ms(now_ms() - age_ms)
    }

    /// an Instant `secs` seconds and `ms` (< 1000) milliseconds before the ghost now, built without
    /// the 64-bit division of `at_ms` (a symbolic `age_ms / 1000` makes the SAT instance hard)
    pub fn ago_parts(secs: u64, ms: u64) -> Instant {
        assert!(core::mem::size_of::<Instant>() == core::mem::size_of::<RawInstant>());
        let now = now_ms(); // a multiple of 1000 unless a harness changed it
        let borrow = if ms > 0 { 1 } else { 0 };
        unsafe {
            core::mem::transmute(RawInstant {
                secs: (now / 1000 - secs - borrow) as i64,
                nanos: (if ms > 0 { 1000 - ms } else { 0 } * 1_000_000) as u32,
            })
        }
    }
}
