// Kani harness module for src/core.rs (child `verif_kani` of `core`).
// C17: Core::check_concurrency_errors against the rule table of /verif/spec/conflict.rs.
// Core::{put_queries, iterative_queries} are the two-slot map stand-ins of /verif/models.
use super::*;
use crate::common::{AnnouncePeerRequestArguments, PutImmutableRequestArguments, ID_SIZE};

include!("/verif/harness/support.rs");

mod spec {
    include!("/verif/spec/conflict.rs");
}

pub(crate) fn id1(b: u8) -> Id {
    let mut x = [7u8; ID_SIZE];
    x[0] = b;
    Id::from(x)
}

fn fill_const(dest: &mut [u8]) -> Result<(), getrandom::Error> {
    let mut i = 0usize;
    while i < dest.len() {
        dest[i] = 3;
        i += 1;
    }
    Ok(())
}

/// A Core with empty tables (constructed through the real Core::new; clock and randomness stubbed).
pub(crate) fn core(server_mode: bool) -> Core {
    Core::new(id1(0xEE), vec![], server_mode, ServerSettings::default())
}

fn mutable_request(target: Id, sig0: u8, seq: i64, cas: Option<i64>) -> PutRequestSpecific {
    let mut sig = [0x22u8; 64];
    sig[0] = sig0;
    PutRequestSpecific::PutMutable(PutMutableRequestArguments { target, v: Box::new([1]), k: [0x11; 32], seq, sig, salt: None, cas })
}

#[kani::proof]
#[kani::unwind(66)]
#[kani::stub(std::time::Instant::now, clock::mock_now)]
#[kani::stub(getrandom::fill, fill_const)]
fn c17_check_concurrency_errors_is_the_rule_table() {
    let mut c = core(true);
    let target = id1(0x10);
    let other = id1(0x90);
    let has_inflight: bool = kani::any();
    let inflight_sig0: u8 = kani::any();
    let inflight_seq: i64 = kani::any();
    // an unrelated in-flight write for another target must never be affected (inserted first so
    // that the slot layout of the stand-in does not depend on `has_inflight`)
    c.put_queries.insert(other, PutQuery::new(mutable_request(other, 1, 5, None), None));
    if has_inflight {
        c.put_queries.insert(target, PutQuery::new(mutable_request(target, inflight_sig0, inflight_seq, None), None));
    }

    let sig0: u8 = kani::any();
    let seq: i64 = kani::any();
    let cas: Option<i64> = kani::any();
    let req = mutable_request(target, sig0, seq, cas);
    let r = c.check_concurrency_errors(&req);
    let got: u8 = match &r {
        Ok(()) => if has_inflight && !c.put_queries.contains_key(&target) { 1 } else { 0 },
        Err(ConcurrencyError::NotMostRecent) => 10,
        Err(ConcurrencyError::ConflictRisk) => 11,
        Err(ConcurrencyError::CasFailed) => 12,
    };
    let (has_cas, casv) = match cas { Some(x) => (true, x), None => (false, 0) };
    let want = spec::conflict(has_inflight, sig0 == inflight_sig0, inflight_seq, seq, has_cas, casv);
    assert!(got == want, "C17: identical item ok; lower seq NotMostRecent; different item without cas ConflictRisk; cas == in-flight seq supersedes; other cas CasFailed");
    // every outcome other than "supersedes" keeps the in-flight write, untouched
    if want != 1 && has_inflight {
        match c.put_queries.get(&target).map(|q| &q.request) {
            Some(PutRequestSpecific::PutMutable(a)) => assert!(a.seq == inflight_seq && a.sig[0] == inflight_sig0, "C17: the in-flight write is kept unchanged"),
            _ => assert!(false, "C17: the in-flight write was dropped"),
        }
    }
    assert!(!has_inflight || want == 1 || c.put_queries.len() == 2);
    assert!(c.put_queries.contains_key(&other), "C17: a write for another target is never affected");
    kani::cover!(got == 0 && has_inflight, "identical item accepted");
    kani::cover!(got == 1, "supersedes");
    kani::cover!(got == 10);
    kani::cover!(got == 11);
    kani::cover!(got == 12);
    kani::cover!(got == 0 && !has_inflight);
    core::mem::forget(r);
    core::mem::forget(req);
    core::mem::forget(c);
}

/// immutable / announce puts never produce (or are affected by) a local concurrency error
#[kani::proof]
#[kani::unwind(66)]
#[kani::stub(std::time::Instant::now, clock::mock_now)]
#[kani::stub(getrandom::fill, fill_const)]
fn c17_non_mutable_puts_never_conflict() {
    let mut c = core(true);
    let target = id1(0x10);
    let inflight_kind: u8 = kani::any();
    kani::assume(inflight_kind < 3);
    let inflight = match inflight_kind {
        0 => mutable_request(target, kani::any(), kani::any(), None),
        1 => PutRequestSpecific::PutImmutable(PutImmutableRequestArguments { target, v: Box::new([1]) }),
        _ => PutRequestSpecific::AnnouncePeer(AnnouncePeerRequestArguments { info_hash: target, port: 1, implied_port: None }),
    };
    c.put_queries.insert(target, PutQuery::new(inflight, None));
    let new_kind: u8 = kani::any();
    kani::assume(new_kind < 3 && (new_kind != 0 || inflight_kind != 0));
    let req = match new_kind {
        0 => mutable_request(target, kani::any(), kani::any(), kani::any()),
        1 => PutRequestSpecific::PutImmutable(PutImmutableRequestArguments { target, v: Box::new([2]) }),
        _ => PutRequestSpecific::AnnouncePeer(AnnouncePeerRequestArguments { info_hash: target, port: 2, implied_port: None }),
    };
    let r = c.check_concurrency_errors(&req);
    assert!(r.is_ok(), "C17: conflict errors are only produced between two mutable puts");
    assert!(c.put_queries.contains_key(&target), "C17: and nothing is removed");
    kani::cover!(new_kind == 0 && inflight_kind == 1);
    kani::cover!(new_kind == 2 && inflight_kind == 0);
    core::mem::forget(r);
    core::mem::forget(req);
    core::mem::forget(c);
}

// =============================================================================================
// C18: address votes of a finished lookup
// =============================================================================================
use crate::core::iterative_query::verif_kani as iq;

#[kani::proof]
#[kani::unwind(22)]
#[kani::stub(std::time::Instant::now, clock::mock_now)]
#[kani::stub(getrandom::fill, fill_const)]
fn c18_a_newly_voted_public_address_is_reported_for_confirmation() {
    let mut c = core(kani::any());
    let old = SocketAddrV4::new(kani::any::<u32>().into(), kani::any());
    let had: bool = kani::any();
    c.public_address = if had { Some(old) } else { None };
    let was_firewalled: bool = kani::any();
    c.firewalled = was_firewalled;
    let mut q = iq::query(0, id1(0x10));
    let voted: bool = kani::any();
    let new = SocketAddrV4::new(kani::any::<u32>().into(), kani::any());
    if voted {
        iq::set_votes(&mut q, Some((new, 3)), None);
    }
    let r = c.update_address_votes_from_iterative_query(&q);
    if !voted {
        assert!(r.is_none() && c.public_address == (if had { Some(old) } else { None }) && c.firewalled == was_firewalled, "no votes: nothing changes");
    } else if had && old == new {
        assert!(r.is_none() && c.firewalled == was_firewalled && c.public_address == Some(new), "the same address again: nothing to confirm");
    } else {
        assert!(r == Some(new), "C18: a different voted address is returned so that the node pings itself there");
        assert!(c.firewalled && c.public_address == Some(new), "C18: until the self-ping arrives the node counts as firewalled");
    }
    kani::cover!(voted && had && old != new);
    kani::cover!(voted && had && old == new);
    kani::cover!(voted && !had);
    core::mem::forget(q);
    core::mem::forget(c);
}

// =============================================================================================
// C20: statistics == aggregate over the cached lookups; cleanup removes exactly the done queries
// =============================================================================================
fn stats(t: &RoutingTable) -> (usize, f64, usize, f64, usize) {
    crate::common::verif_kani::routing_table::stats(t)
}

fn cached(kind: u8, target: Id, d: f64, r: f64, subnets: u8) -> CachedIterativeQuery {
    let request_type = match kind {
        0 => RequestTypeSpecific::FindNode(crate::common::FindNodeRequestArguments { target }),
        1 => RequestTypeSpecific::GetPeers(crate::common::GetPeersRequestArguments { info_hash: target }),
        2 => RequestTypeSpecific::GetSignedPeers(crate::common::GetPeersRequestArguments { info_hash: target }),
        _ => RequestTypeSpecific::GetValue(crate::common::GetValueRequestArguments { target, seq: None, salt: None }),
    };
    CachedIterativeQuery { closest_responding_nodes: Box::new([]), dht_size_estimate: d, responders_dht_size_estimate: r, subnets, request_type }
}

/// contribution of one cached lookup to (basic table, signed-peers table) statistics:
/// find_node: basic.count += 1, basic.sum += d;  get_signed_peers: all five on the signed table;
/// other gets: all five on the basic table
fn contrib(kind: u8, d: f64, r: f64, s: u8) -> ((usize, f64, usize, f64, usize), (usize, f64, usize, f64, usize)) {
    match kind {
        0 => ((1, d, 0, 0.0, 0), (0, 0.0, 0, 0.0, 0)),
        2 => ((0, 0.0, 0, 0.0, 0), (1, d, 1, r, s as usize)),
        _ => ((1, d, 1, r, s as usize), (0, 0.0, 0, 0.0, 0)),
    }
}

static mut EST_CLOSEST: f64 = 0.0;
static mut EST_RESP: f64 = 0.0;
static mut SUBNETS: u8 = 0;
static mut EST_CALLS: u32 = 0;
fn stub_dht_size_estimate(_c: &ClosestNodes) -> f64 {
    // first call: closest, second call: responders (the order in cache_iterative_query)
    unsafe {
        EST_CALLS += 1;
        if EST_CALLS % 2 == 1 { EST_CLOSEST } else { EST_RESP }
    }
}
fn stub_subnets_count(_c: &ClosestNodes) -> u8 {
    unsafe { SUBNETS }
}
fn stub_valid(id: &Id, ip: std::net::Ipv4Addr) -> bool {
    (id.as_bytes()[19] ^ ip.octets()[3]) & 1 == 1
}
use crate::common::ClosestNodes;

/// One cache_iterative_query on a cache holding 0 or 1 entries (same or different target), small
/// integer-valued estimates (exact in f64): afterwards the statistics of both tables equal the
/// aggregate over the cache; counts never underflow.
#[kani::proof]
#[kani::unwind(22)]
#[kani::stub(std::time::Instant::now, clock::mock_now)]
#[kani::stub(getrandom::fill, fill_const)]
#[kani::stub(ClosestNodes::dht_size_estimate, stub_dht_size_estimate)]
#[kani::stub(ClosestNodes::subnets_count, stub_subnets_count)]
#[kani::stub(Id::is_valid_for_ip, stub_valid)]
fn c20_stats_equal_the_aggregate_over_cached_lookups() {
    stats_case(true)
}

#[kani::proof]
#[kani::unwind(22)]
#[kani::stub(std::time::Instant::now, clock::mock_now)]
#[kani::stub(getrandom::fill, fill_const)]
#[kani::stub(ClosestNodes::dht_size_estimate, stub_dht_size_estimate)]
#[kani::stub(ClosestNodes::subnets_count, stub_subnets_count)]
#[kani::stub(Id::is_valid_for_ip, stub_valid)]
fn c20_stats_equal_the_aggregate_when_another_target_is_cached() {
    stats_case(false)
}

/// (whether the earlier entry is for the same target is concrete per harness: together they took
/// 445 s, too long for the quick tier)
fn stats_case(prev_same_target: bool) {
    stats_case_with(prev_same_target, (kani::any(), kani::any(), kani::any()), (kani::any(), kani::any(), kani::any()))
}

/// quick-tier variants: the estimate VALUES are concrete (distinct small integers), kinds and presence
/// symbolic — proving (a + b) - a == b over symbolic floats is what made the symbolic-valued
/// obligation take 7-13 minutes; the pairing of increments and decrements does not depend on the values
#[kani::proof]
#[kani::unwind(22)]
#[kani::stub(std::time::Instant::now, clock::mock_now)]
#[kani::stub(getrandom::fill, fill_const)]
#[kani::stub(ClosestNodes::dht_size_estimate, stub_dht_size_estimate)]
#[kani::stub(ClosestNodes::subnets_count, stub_subnets_count)]
#[kani::stub(Id::is_valid_for_ip, stub_valid)]
fn c20_stats_pairing_when_the_same_target_is_cached_again() {
    // the case the statement singles out ("repeated lookups of one target, including the node's own
    // id every refresh"): an entry for this target is cached and the lookup completes online; both
    // request kinds symbolic. (Presence and online/offline symbolic as well: 650 s — thorough tier.)
    stats_case_full(true, (3, 5, 7), (11, 13, 17), true, true)
}

#[kani::proof]
#[kani::unwind(22)]
#[kani::stub(std::time::Instant::now, clock::mock_now)]
#[kani::stub(getrandom::fill, fill_const)]
#[kani::stub(ClosestNodes::dht_size_estimate, stub_dht_size_estimate)]
#[kani::stub(ClosestNodes::subnets_count, stub_subnets_count)]
#[kani::stub(Id::is_valid_for_ip, stub_valid)]
fn c20_stats_pairing_when_another_target_is_cached() {
    stats_case_full(false, (3, 5, 7), (11, 13, 17), true, true)
}

fn stats_case_with(prev_same_target: bool, prev_vals: (u8, u8, u8), new_vals: (u8, u8, u8)) {
    stats_case_full(prev_same_target, prev_vals, new_vals, kani::any(), kani::any())
}

fn stats_case_full(prev_same_target: bool, prev_vals: (u8, u8, u8), new_vals: (u8, u8, u8), has_prev: bool, online: bool) {
    let mut c = core(true);
    let target = id1(0x10);
    // pre-state: optionally one cached lookup (for the same target or another one), with the
    // statistics that the invariant prescribes for it
    let pk: u8 = kani::any::<u8>() % 4;
    let (pd, pr, ps): (u8, u8, u8) = prev_vals;
    let prev_target = if prev_same_target { target } else { id1(0x90) };
    if has_prev {
        c.cached_iterative_queries.put(prev_target, cached(pk, prev_target, pd as f64, pr as f64, ps));
        let (b, s) = contrib(pk, pd as f64, pr as f64, ps);
        crate::common::verif_kani::routing_table::set_stats(&mut c.routing_table, b);
        crate::common::verif_kani::routing_table::set_stats(&mut c.signed_peers_routing_table, s);
    }
    // the finished lookup
    let k: u8 = kani::any::<u8>() % 4;
    let (d, r, s): (u8, u8, u8) = new_vals;
    unsafe {
        EST_CLOSEST = d as f64;
        EST_RESP = r as f64;
        SUBNETS = s;
    }
    let mut q = iq::query(k, target);
    if online {
        iq::push_candidate(&mut q, crate::common::verif_kani::node::node_aged(id1(0x20), SocketAddrV4::new(5u32.into(), 5), 0));
    }
    c.cache_iterative_query(&q, &[]);

    // expected aggregate
    let keep_prev = has_prev && !(online && prev_same_target);
    let (pb, psg) = if keep_prev { contrib(pk, pd as f64, pr as f64, ps) } else { ((0, 0.0, 0, 0.0, 0), (0, 0.0, 0, 0.0, 0)) };
    let (nb, nsg) = if online { contrib(k, d as f64, r as f64, s) } else { ((0, 0.0, 0, 0.0, 0), (0, 0.0, 0, 0.0, 0)) };
    let want_b = (pb.0 + nb.0, pb.1 + nb.1, pb.2 + nb.2, pb.3 + nb.3, pb.4 + nb.4);
    let want_s = (psg.0 + nsg.0, psg.1 + nsg.1, psg.2 + nsg.2, psg.3 + nsg.3, psg.4 + nsg.4);
    assert!(stats(&c.routing_table) == want_b, "C20: the basic table's statistics equal the aggregate over the cached lookups");
    assert!(stats(&c.signed_peers_routing_table) == want_s, "C20: the signed-peers table's statistics equal the aggregate over the cached lookups");
    assert!(c.cached_iterative_queries.len() == (if keep_prev { 1 } else { 0 }) + (if online { 1 } else { 0 }));
    kani::cover!(has_prev && online && pk != k, "an earlier lookup with another request kind is cached");
    kani::cover!(has_prev && online && pk == 0 && k == 0, "find_node after find_node (the node's own id every refresh)");
    core::mem::forget(q);
    core::mem::forget(c);
}

/// the cache AT ITS CAPACITY (MAX_CACHED_ITERATIVE_QUERIES entries: the oldest one tracked, the others
/// untracked "ghost" entries of the lru stand-in whose contribution to the statistics is `base`):
/// caching one more lookup evicts exactly the oldest entry AND subtracts its contribution, so the
/// statistics still equal the aggregate over what the cache holds
#[kani::proof]
#[kani::unwind(22)]
#[kani::stub(std::time::Instant::now, clock::mock_now)]
#[kani::stub(getrandom::fill, fill_const)]
#[kani::stub(ClosestNodes::dht_size_estimate, stub_dht_size_estimate)]
#[kani::stub(ClosestNodes::subnets_count, stub_subnets_count)]
#[kani::stub(Id::is_valid_for_ip, stub_valid)]
fn c20_a_full_cache_evicts_its_oldest_lookup_and_subtracts_it() {
    let mut c = core(true);
    let old = id1(0x90);
    let target = id1(0x10);
    // (request kinds concrete: a get_peers lookup is the oldest entry, a find_node lookup is cached;
    // the kind-by-kind pairing is the other obligations' subject, and 4x4 symbolic kinds did not finish in 700 s here)
    let pk: u8 = 1;
    c.cached_iterative_queries.put(old, cached(pk, old, 3.0, 5.0, 7));
    c.cached_iterative_queries.ghost = crate::core::MAX_CACHED_ITERATIVE_QUERIES - 1;
    c.cached_iterative_queries.above = 0;
    let (pb, ps) = contrib(pk, 3.0, 5.0, 7);
    // what the untracked entries contributed
    let base = (40usize, 400.0f64, 30usize, 300.0f64, 90usize);
    crate::common::verif_kani::routing_table::set_stats(&mut c.routing_table, (base.0 + pb.0, base.1 + pb.1, base.2 + pb.2, base.3 + pb.3, base.4 + pb.4));
    crate::common::verif_kani::routing_table::set_stats(&mut c.signed_peers_routing_table, (base.0 + ps.0, base.1 + ps.1, base.2 + ps.2, base.3 + ps.3, base.4 + ps.4));
    let k: u8 = 0;
    unsafe {
        EST_CLOSEST = 11.0;
        EST_RESP = 13.0;
        SUBNETS = 17;
    }
    let mut q = iq::query(k, target);
    iq::push_candidate(&mut q, crate::common::verif_kani::node::node_aged(id1(0x20), SocketAddrV4::new(5u32.into(), 5), 0));
    c.cache_iterative_query(&q, &[]);
    let (nb, ns) = contrib(k, 11.0, 13.0, 17);
    assert!(c.cached_iterative_queries.len() == crate::core::MAX_CACHED_ITERATIVE_QUERIES, "C20: the cache stays at its capacity");
    assert!(c.cached_iterative_queries.contains(&target) && !c.cached_iterative_queries.contains(&old), "C20: the oldest lookup is the one evicted");
    assert!(stats(&c.routing_table) == (base.0 + nb.0, base.1 + nb.1, base.2 + nb.2, base.3 + nb.3, base.4 + nb.4),
        "C20: a lookup evicted from a full cache is subtracted from the basic table's statistics");
    assert!(stats(&c.signed_peers_routing_table) == (base.0 + ns.0, base.1 + ns.1, base.2 + ns.2, base.3 + ns.3, base.4 + ns.4),
        "C20: a lookup evicted from a full cache is subtracted from the signed-peers table's statistics");
    kani::cover!(c.cached_iterative_queries.len() == crate::core::MAX_CACHED_ITERATIVE_QUERIES);
    kani::cover!(stats(&c.routing_table).0 == 41);
    core::mem::forget(q);
    core::mem::forget(c);
}

/// eviction path: decrement_cached_iterative_query_stats(evicted entry) subtracts exactly that entry's contribution
#[kani::proof]
#[kani::unwind(22)]
#[kani::stub(std::time::Instant::now, clock::mock_now)]
#[kani::stub(getrandom::fill, fill_const)]
fn c20_evicting_a_cached_lookup_subtracts_exactly_its_contribution() {
    let mut c = core(true);
    let k: u8 = kani::any::<u8>() % 4;
    let (d, r, s): (u8, u8, u8) = (kani::any(), kani::any(), kani::any());
    let k2: u8 = kani::any::<u8>() % 4;
    let (d2, r2, s2): (u8, u8, u8) = (kani::any(), kani::any(), kani::any());
    let (b1, s1) = contrib(k, d as f64, r as f64, s);
    let (b2, sg2) = contrib(k2, d2 as f64, r2 as f64, s2);
    crate::common::verif_kani::routing_table::set_stats(&mut c.routing_table, (b1.0 + b2.0, b1.1 + b2.1, b1.2 + b2.2, b1.3 + b2.3, b1.4 + b2.4));
    crate::common::verif_kani::routing_table::set_stats(&mut c.signed_peers_routing_table, (s1.0 + sg2.0, s1.1 + sg2.1, s1.2 + sg2.2, s1.3 + sg2.3, s1.4 + sg2.4));
    c.decrement_cached_iterative_query_stats(Some(cached(k, id1(0x10), d as f64, r as f64, s)));
    assert!(stats(&c.routing_table) == b2 && stats(&c.signed_peers_routing_table) == sg2, "C20: eviction subtracts what caching added, from the same table");
    c.decrement_cached_iterative_query_stats(None);
    assert!(stats(&c.routing_table) == b2 && stats(&c.signed_peers_routing_table) == sg2);
    kani::cover!(k == 0 && k2 == 2);
    kani::cover!(k == 2);
    core::mem::forget(c);
}

/// cleanup_done_queries removes exactly the listed lookups and puts (no per-call state remains for
/// a finished call) and leaves the others
#[kani::proof]
#[kani::unwind(22)]
#[kani::stub(std::time::Instant::now, clock::mock_now)]
#[kani::stub(getrandom::fill, fill_const)]
#[kani::stub(ClosestNodes::dht_size_estimate, stub_dht_size_estimate)]
#[kani::stub(ClosestNodes::subnets_count, stub_subnets_count)]
fn c20_cleanup_removes_exactly_the_finished_queries() {
    let mut c = core(true);
    let a = id1(0x10);
    let b = id1(0x90);
    c.iterative_queries.insert(a, iq::query(3, a));
    c.iterative_queries.insert(b, iq::query(1, b));
    c.put_queries.insert(a, PutQuery::new(mutable_request(a, 1, 1, None), None));
    c.put_queries.insert(b, PutQuery::new(mutable_request(b, 1, 1, None), None));
    let get_a_done: bool = kani::any();
    let put_b_done: bool = kani::any();
    let done_gets: Vec<(Id, Box<[Node]>)> = if get_a_done { vec![(a, Box::new([]))] } else { vec![] };
    let done_puts: Vec<(Id, Option<PutError>)> = if put_b_done { vec![(b, None)] } else { vec![] };
    let r = c.cleanup_done_queries(&done_gets, &done_puts);
    assert!(r.is_none());
    assert!(c.iterative_queries.contains_key(&a) == !get_a_done && c.iterative_queries.contains_key(&b), "C20: a finished lookup is dropped, an unfinished one kept");
    assert!(c.put_queries.contains_key(&b) == !put_b_done && c.put_queries.contains_key(&a), "C20: a finished put is dropped, an unfinished one kept");
    kani::cover!(get_a_done && put_b_done);
    core::mem::forget(c);
}

// =============================================================================================
// C14: the 5-minute maintenance round
// =============================================================================================
#[kani::proof]
#[kani::unwind(163)]
#[kani::stub(std::time::Instant::now, clock::mock_now)]
#[kani::stub(std::time::Instant::elapsed, clock::mock_elapsed)]
#[kani::stub(getrandom::fill, fill_const)]
fn c14_maintenance_round_drops_stale_nodes_and_pings_the_quiet_ones() {
    let mut c = core(true);
    let age1: u64 = kani::any();
    let age2: u64 = kani::any();
    kani::assume(age1 <= 2_000_000 && age2 <= 2_000_000);
    let n1 = crate::common::verif_kani::node::node_aged(id1(0x10), SocketAddrV4::new(11u32.into(), 11), age1);
    let n2 = crate::common::verif_kani::node::node_aged(id1(0x20), SocketAddrV4::new(12u32.into(), 12), age2);
    // stack-backed bucket buffers (CBMC folds loops over stack slices, not over heap ones)
    let mut s1: [core::mem::MaybeUninit<Node>; 2] = unsafe { core::mem::MaybeUninit::uninit().assume_init() };
    let mut s2: [core::mem::MaybeUninit<Node>; 2] = unsafe { core::mem::MaybeUninit::uninit().assume_init() };
    s1[0].write(n1);
    s2[0].write(n2);
    crate::common::verif_kani::routing_table::insert_bucket(&mut c.routing_table, unsafe { Vec::from_raw_parts(s1.as_mut_ptr() as *mut Node, 1, 2) });
    crate::common::verif_kani::routing_table::insert_bucket(&mut c.signed_peers_routing_table, unsafe { Vec::from_raw_parts(s2.as_mut_ptr() as *mut Node, 1, 2) });
    let to_ping = c.check_nodes_to_ping_and_remove_stale_nodes();
    let stale1 = age1 > 900_000;
    let stale2 = age2 > 900_000;
    assert!(c.routing_table.size() == if stale1 { 0 } else { 1 }, "C14: a node not heard from for more than 15 minutes is removed; a fresher one stays");
    assert!(c.signed_peers_routing_table.size() == if stale2 { 0 } else { 1 });
    let ping1 = !stale1 && age1 > 10_000;
    let ping2 = !stale2 && age2 > 10_000;
    assert!(to_ping.len() == (if ping1 { 1 } else { 0 }) + (if ping2 { 1 } else { 0 }), "C14: exactly the remaining nodes that have been quiet for more than 10 s are pinged");
    if ping1 {
        assert!(to_ping[0].port() == 11);
    }
    if ping2 {
        assert!(to_ping[to_ping.len() - 1].port() == 12);
    }
    kani::cover!(stale1 && !stale2);
    kani::cover!(ping1 && ping2);
    core::mem::forget(to_ping);
    core::mem::forget(c);
}

// =============================================================================================
// C07 (and the replica-set selection of C01): what a finished lookup reports / stores to
// =============================================================================================
fn three_nodes(slab: &mut [core::mem::MaybeUninit<Node>; 3], n: usize) -> Vec<Node> {
    let mut i = 0usize;
    while i < n {
        slab[i].write(crate::common::verif_kani::node::node_aged(id1(0x30 + i as u8), SocketAddrV4::new((50 + i as u32).into(), 5000 + i as u16), 0));
        i += 1;
    }
    // stack-backed buffer (read-only here): see common::routing_table::verif_kani::stack_nodes
    unsafe { Vec::from_raw_parts(slab.as_mut_ptr() as *mut Node, n, 3) }
}

/// find_node lookups report the first (up to 20) candidates of the accumulator, in its order
#[kani::proof]
#[kani::unwind(6)]
#[kani::stub(std::time::Instant::now, clock::mock_now)]
#[kani::stub(getrandom::fill, fill_const_memset)]
fn c07_a_finished_find_node_lookup_reports_the_closest_candidates_in_order() {
    let c = core(true);
    let mut q = iq::query(0, id1(0x10));
    let n: usize = kani::any();
    kani::assume(n <= 3);
    let mut slab: [core::mem::MaybeUninit<Node>; 3] = unsafe { core::mem::MaybeUninit::uninit().assume_init() };
    iq::set_closest(&mut q, crate::common::verif_kani::closest_nodes::with_nodes(id1(0x10), three_nodes(&mut slab, n)));
    let r = c.closest_nodes_from_done_iterative_query(&q);
    assert!(r.len() == n, "C07: the lookup reports every one of the (up to 20) closest candidates");
    let mut i = 0usize;
    while i < 3 {
        if i < n {
            assert!(r[i].address().port() == 5000 + i as u16, "C07: ... in the accumulator's order");
        }
        i += 1;
    }
    kani::cover!(n == 3);
    core::mem::forget(r);
    core::mem::forget(q);
    core::mem::forget(c);
}

fn fill_const_memset(dest: &mut [u8]) -> Result<(), getrandom::Error> {
    dest.fill(3);
    Ok(())
}

/// every other lookup (get_peers, get_signed_peers, get value: the ones puts store to) reports the
/// take_until_secure prefix of its RESPONDERS, computed with the statistics of the table that
/// matches the request kind
#[kani::proof]
#[kani::unwind(6)]
#[kani::stub(std::time::Instant::now, clock::mock_now)]
#[kani::stub(getrandom::fill, fill_const_memset)]
#[kani::stub(ClosestNodes::take_until_secure, crate::common::verif_kani::closest_nodes::stub_take_until_secure)]
fn c07_a_finished_get_lookup_reports_the_secure_prefix_of_its_responders() {
    use crate::common::verif_kani::closest_nodes as cn;
    let mut c = core(true);
    crate::common::verif_kani::routing_table::set_stats(&mut c.routing_table, (4, 40.0, 2, 2000.0, 14));
    crate::common::verif_kani::routing_table::set_stats(&mut c.signed_peers_routing_table, (4, 40.0, 3, 900.0, 9));
    let kind: u8 = kani::any();
    kani::assume(kind >= 1 && kind <= 3);
    let mut q = iq::query(kind, id1(0x10));
    let mut slab: [core::mem::MaybeUninit<Node>; 3] = unsafe { core::mem::MaybeUninit::uninit().assume_init() };
    iq::set_responders(&mut q, cn::with_nodes(id1(0x10), three_nodes(&mut slab, 3)));
    let take: usize = kani::any();
    kani::assume(take <= 3);
    unsafe { cn::TUS_TAKE = take };
    let r = c.closest_nodes_from_done_iterative_query(&q);
    assert!(unsafe { cn::TUS_CALLS } == 1, "C07: the nodes a write goes to are chosen by take_until_secure");
    let want_args = if kind == 2 { (300, 3) } else { (1000, 7) };
    assert!(unsafe { cn::TUS_ARGS } == want_args, "... with the size estimate and subnet average of the table that matches the request kind (signed-peers table for get_signed_peers)");
    assert!(r.len() == take, "... and exactly that prefix of the RESPONDERS is reported");
    let mut i = 0usize;
    while i < 3 {
        if i < take {
            assert!(r[i].address().port() == 5000 + i as u16);
        }
        i += 1;
    }
    kani::cover!(kind == 2 && take == 2);
    core::mem::forget(r);
    core::mem::forget(q);
    core::mem::forget(c);
}

// =============================================================================================
// C14: the 5-minute round against the contract of the table iterator (a ghost sequence of nodes;
// the iterator itself — a 160-step bucket scan — is written but unreached) and of remove()
// =============================================================================================
static mut IT_POS: u32 = 0;
static mut IT_AGES: [u64; 2] = [0; 2];
static mut REMOVED: [u8; 4] = [0; 4];
static mut REMOVED_N: usize = 0;

fn stub_iter_next<'a: 'a>(_it: &mut crate::common::RoutingTableIterator<'a>) -> Option<Node> {
    unsafe {
        let p = IT_POS;
        IT_POS += 1;
        match p {
            // first table: two nodes, then the end; second table: nothing
            0 => Some(crate::common::verif_kani::node::node_aged(id1(0x10), SocketAddrV4::new(11u32.into(), 11), IT_AGES[0])),
            1 => Some(crate::common::verif_kani::node::node_aged(id1(0x20), SocketAddrV4::new(12u32.into(), 12), IT_AGES[1])),
            _ => None,
        }
    }
}
fn stub_rt_remove(_t: &mut RoutingTable, id: &Id) {
    unsafe {
        if REMOVED_N < 4 {
            REMOVED[REMOVED_N] = id.as_bytes()[0];
        }
        REMOVED_N += 1;
    }
}

#[kani::proof]
#[kani::unwind(6)]
#[kani::stub(std::time::Instant::now, clock::mock_now)]
#[kani::stub(std::time::Instant::elapsed, clock::mock_elapsed)]
#[kani::stub(getrandom::fill, fill_const_memset)]
#[kani::stub(<crate::common::RoutingTableIterator as std::iter::Iterator>::next, stub_iter_next)]
#[kani::stub(RoutingTable::remove, stub_rt_remove)]
fn c14_maintenance_round_removes_the_stale_and_pings_the_quiet() {
    let mut c = core(true);
    let a0: u64 = kani::any();
    let a1: u64 = kani::any();
    kani::assume(a0 <= 2_000_000 && a1 <= 2_000_000);
    unsafe { IT_AGES = [a0, a1] };
    let to_ping = c.check_nodes_to_ping_and_remove_stale_nodes();
    let stale0 = a0 > 900_000;
    let stale1 = a1 > 900_000;
    let removed_n = unsafe { REMOVED_N };
    assert!(removed_n == (if stale0 { 1 } else { 0 }) + (if stale1 { 1 } else { 0 }), "C14: exactly the nodes not heard from for more than 15 minutes are removed");
    if stale0 {
        assert!(unsafe { REMOVED[0] } == 0x10);
    }
    if stale1 {
        assert!(unsafe { REMOVED[removed_n - 1] } == 0x20);
    }
    let ping0 = !stale0 && a0 > 10_000;
    let ping1 = !stale1 && a1 > 10_000;
    assert!(to_ping.len() == (if ping0 { 1 } else { 0 }) + (if ping1 { 1 } else { 0 }), "C14: exactly the remaining nodes quiet for more than 10 s are pinged (a stale node is removed, not pinged)");
    if ping0 {
        assert!(to_ping[0].port() == 11);
    }
    if ping1 {
        assert!(to_ping[to_ping.len() - 1].port() == 12);
    }
    kani::cover!(stale0 && ping1);
    kani::cover!(!stale0 && !ping0 && stale1);
    core::mem::forget(to_ping);
    core::mem::forget(c);
}
