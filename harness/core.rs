// Kani harness module for src/core.rs (child `verif_kani` of `core`).
// C17: Core::check_concurrency_errors against the rule table of /verif/spec/conflict.rs.
// Core::{put_queries, iterative_queries} are the two-slot map stand-ins of /verif/models.
use super::*;
use crate::common::{AnnouncePeerRequestArguments, PutImmutableRequestArguments, ID_SIZE};

include!("/verif/harness/support.rs");

mod spec {
    include!("/verif/spec/conflict.rs");
}

pub(crate) fn id1(b: u8) -> Id {
    let mut x = [7u8; ID_SIZE];
    x[0] = b;
    Id::from(x)
}

fn fill_const(dest: &mut [u8]) -> Result<(), getrandom::Error> {
    let mut i = 0usize;
    while i < dest.len() {
        dest[i] = 3;
        i += 1;
    }
    Ok(())
}

/// A Core with empty tables (constructed through the real Core::new; clock and randomness stubbed).
pub(crate) fn core(server_mode: bool) -> Core {
    Core::new(id1(0xEE), vec![], server_mode, ServerSettings::default())
}

fn mutable_request(target: Id, sig0: u8, seq: i64, cas: Option<i64>) -> PutRequestSpecific {
    let mut sig = [0x22u8; 64];
    sig[0] = sig0;
    PutRequestSpecific::PutMutable(PutMutableRequestArguments { target, v: Box::new([1]), k: [0x11; 32], seq, sig, salt: None, cas })
}

#[kani::proof]
#[kani::unwind(66)]
#[kani::stub(std::time::Instant::now, clock::mock_now)]
#[kani::stub(getrandom::fill, fill_const)]
fn c17_check_concurrency_errors_is_the_rule_table() {
    let mut c = core(true);
    let target = id1(0x10);
    let other = id1(0x90);
    let has_inflight: bool = kani::any();
    let inflight_sig0: u8 = kani::any();
    let inflight_seq: i64 = kani::any();
    // an unrelated in-flight write for another target must never be affected (inserted first so
    // that the slot layout of the stand-in does not depend on `has_inflight`)
    c.put_queries.insert(other, PutQuery::new(mutable_request(other, 1, 5, None), None));
    if has_inflight {
        c.put_queries.insert(target, PutQuery::new(mutable_request(target, inflight_sig0, inflight_seq, None), None));
    }

    let sig0: u8 = kani::any();
    let seq: i64 = kani::any();
    let cas: Option<i64> = kani::any();
    let req = mutable_request(target, sig0, seq, cas);
    let r = c.check_concurrency_errors(&req);
    let got: u8 = match &r {
        Ok(()) => if has_inflight && !c.put_queries.contains_key(&target) { 1 } else { 0 },
        Err(ConcurrencyError::NotMostRecent) => 10,
        Err(ConcurrencyError::ConflictRisk) => 11,
        Err(ConcurrencyError::CasFailed) => 12,
    };
    let (has_cas, casv) = match cas { Some(x) => (true, x), None => (false, 0) };
    let want = spec::conflict(has_inflight, sig0 == inflight_sig0, inflight_seq, seq, has_cas, casv);
    assert!(got == want, "C17: identical item ok; lower seq NotMostRecent; different item without cas ConflictRisk; cas == in-flight seq supersedes; other cas CasFailed");
    // every outcome other than "supersedes" keeps the in-flight write, untouched
    if want != 1 && has_inflight {
        match c.put_queries.get(&target).map(|q| &q.request) {
            Some(PutRequestSpecific::PutMutable(a)) => assert!(a.seq == inflight_seq && a.sig[0] == inflight_sig0, "C17: the in-flight write is kept unchanged"),
            _ => assert!(false, "C17: the in-flight write was dropped"),
        }
    }
    assert!(!has_inflight || want == 1 || c.put_queries.len() == 2);
    assert!(c.put_queries.contains_key(&other), "C17: a write for another target is never affected");
    kani::cover!(got == 0 && has_inflight, "identical item accepted");
    kani::cover!(got == 1, "supersedes");
    kani::cover!(got == 10);
    kani::cover!(got == 11);
    kani::cover!(got == 12);
    kani::cover!(got == 0 && !has_inflight);
    core::mem::forget(r);
    core::mem::forget(req);
    core::mem::forget(c);
}

/// immutable / announce puts never produce (or are affected by) a local concurrency error
#[kani::proof]
#[kani::unwind(66)]
#[kani::stub(std::time::Instant::now, clock::mock_now)]
#[kani::stub(getrandom::fill, fill_const)]
fn c17_non_mutable_puts_never_conflict() {
    let mut c = core(true);
    let target = id1(0x10);
    let inflight_kind: u8 = kani::any();
    kani::assume(inflight_kind < 3);
    let inflight = match inflight_kind {
        0 => mutable_request(target, kani::any(), kani::any(), None),
        1 => PutRequestSpecific::PutImmutable(PutImmutableRequestArguments { target, v: Box::new([1]) }),
        _ => PutRequestSpecific::AnnouncePeer(AnnouncePeerRequestArguments { info_hash: target, port: 1, implied_port: None }),
    };
    c.put_queries.insert(target, PutQuery::new(inflight, None));
    let new_kind: u8 = kani::any();
    kani::assume(new_kind < 3 && (new_kind != 0 || inflight_kind != 0));
    let req = match new_kind {
        0 => mutable_request(target, kani::any(), kani::any(), kani::any()),
        1 => PutRequestSpecific::PutImmutable(PutImmutableRequestArguments { target, v: Box::new([2]) }),
        _ => PutRequestSpecific::AnnouncePeer(AnnouncePeerRequestArguments { info_hash: target, port: 2, implied_port: None }),
    };
    let r = c.check_concurrency_errors(&req);
    assert!(r.is_ok(), "C17: conflict errors are only produced between two mutable puts");
    assert!(c.put_queries.contains_key(&target), "C17: and nothing is removed");
    kani::cover!(new_kind == 0 && inflight_kind == 1);
    kani::cover!(new_kind == 2 && inflight_kind == 0);
    core::mem::forget(r);
    core::mem::forget(req);
    core::mem::forget(c);
}
