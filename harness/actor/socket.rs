// Kani harnesses for src/actor/socket.rs — child module `verif_kani` of `actor::socket`.
// Properties C09 (attribution of replies), C06/C20 (expiry and cleanup of in-flight entries),
// C18 (read-only flag on outgoing messages).
use super::*;
use crate::common::{Id, PingResponseArguments};
use std::os::fd::FromRawFd;

include!("/verif/harness/support.rs");

mod spec {
    include!("/verif/spec/inflight.rs");
}

fn addr(ip: u32, port: u16) -> SocketAddrV4 {
    SocketAddrV4::new(ip.into(), port)
}

fn any_addr() -> SocketAddrV4 {
    addr(kani::any(), kani::any())
}

/// A KrpcSocket around a raw descriptor that is never used: no bind(), no close() (forgotten).
fn socket_with(server_mode: bool, inflight: InflightRequests) -> KrpcSocket {
    KrpcSocket {
        socket: unsafe { UdpSocket::from_raw_fd(3) },
        server_mode,
        local_addr: addr(0x7f00_0001, 6881),
        inflight_requests: inflight,
        poll_interval: MIN_POLL_INTERVAL,
    }
}

/// A socket with nothing in flight, for harnesses of other modules (they cannot name InflightRequests).
pub(crate) fn idle_socket(server_mode: bool) -> KrpcSocket {
    socket_with(server_mode, InflightRequests::new())
}

fn reply(tid: u32) -> Message {
    Message {
        transaction_id: tid,
        version: None,
        requester_ip: None,
        read_only: false,
        message_type: MessageType::Response(ResponseSpecific::Ping(PingResponseArguments {
            responder_id: Id::from([1u8; 20]),
        })),
    }
}

/// An in-flight table of `n` entries with consecutive tids starting at a symbolic `first`
/// (as `add` produces them), symbolic destinations and the given ages.
fn table(n: usize, first: u32, tos: [SocketAddrV4; 3], ages_ms: [u64; 3]) -> InflightRequests {
    let mut t = InflightRequests::new();
    t.next_tid = first;
    let mut i = 0usize;
    while i < n {
        t.requests.push(InflightRequest {
            tid: first.wrapping_add(i as u32),
            to: tos[i],
            sent_at: clock::ago_ms(ages_ms[i]),
        });
        i += 1;
    }
    t.next_tid = first.wrapping_add(n as u32);
    t
}

// ---------------------------------------------------------------------------------------------
// K-total: transaction ids
// ---------------------------------------------------------------------------------------------

/// tid(): returns the previous counter and advances it by one, wrapping at u32::MAX.
#[kani::proof]
fn c09_tid_is_sequential_and_wraps() {
    let mut t = InflightRequests::new();
    let start: u32 = kani::any();
    t.next_tid = start;
    let a = t.tid();
    let b = t.tid();
    assert!(a == start);
    assert!(b == start.wrapping_add(1));
    assert!(t.next_tid == start.wrapping_add(2));
    kani::cover!(start == u32::MAX);
    core::mem::forget(t);
}

/// compare_socket_addr(a, b) == (a == b) whenever the request was sent to a specified address.
#[kani::proof]
fn c09_compare_socket_addr_is_equality() {
    let a = any_addr();
    let b = any_addr();
    kani::assume(!a.ip().is_unspecified());
    assert!(compare_socket_addr(&a, &b) == (a == b));
    assert!(compare_socket_addr(&a, &b) == spec::same_endpoint(a.ip().to_bits(), a.port(), b.ip().to_bits(), b.port()));
    kani::cover!(a.port() == b.port() && a.ip() != b.ip());
    kani::cover!(a == b);
}

/// ... and even for a request sent to the unspecified address (the recorded finding D10 is "any IP
/// on the SAME port"): a reply from another port is never attributed to it.
#[kani::proof]
fn c09_a_reply_from_another_port_never_matches() {
    let a = any_addr();
    let b = any_addr();
    assert!(!compare_socket_addr(&a, &b) || a.port() == b.port(), "C09: the source port of a reply must be the port the request was sent to, whatever the destination ip was");
    kani::cover!(a.ip().is_unspecified() && a.port() != b.port());
}

/// KNOWN FINDING D10: a request sent to 0.0.0.0:p is answered by any ip on port p.
/// The property demands equality of addresses; this harness asserts it on that input class.
#[kani::proof]
fn c09_finding_unspecified_destination_matches_any_ip() {
    let a = addr(0, kani::any());
    let b = any_addr();
    let accepted = compare_socket_addr(&a, &b);
    assert!(accepted == (a == b), "D10: reply from a different ip accepted for a request sent to 0.0.0.0");
}

// ---------------------------------------------------------------------------------------------
// K-bounded (table of <= 3 entries): add / get / remove / is_expected_response
// ---------------------------------------------------------------------------------------------

/// add(to): the new entry gets the old counter as tid and is appended; older entries untouched;
/// the table stays sorted by tid (absent wrap-around inside the table).
#[kani::proof]
#[kani::unwind(5)]
#[kani::stub(std::time::Instant::now, clock::mock_now)]
#[kani::stub(std::time::Instant::elapsed, clock::mock_elapsed)]
fn c09_add_appends_with_fresh_tid() {
    let n: usize = kani::any();
    kani::assume(n <= 2);
    let first: u32 = kani::any();
    let tos = [any_addr(), any_addr(), any_addr()];
    let mut t = table(n, first, tos, [0, 0, 0]);
    let to = any_addr();
    let tid = t.add(to);
    assert!(tid == first.wrapping_add(n as u32));
    assert!(t.requests.len() == n + 1);
    assert!(t.requests[n].tid == tid && t.requests[n].to == to);
    let i: usize = kani::any();
    kani::assume(i < n);
    assert!(t.requests[i].tid == first.wrapping_add(i as u32) && t.requests[i].to == tos[i]);
    assert!(t.next_tid == tid.wrapping_add(1));
    kani::cover!(n == 2);
    core::mem::forget(t);
}

/// Pre-state shared by the attribution harnesses: `n` fresh entries (age 100 ms, concrete so that
/// the RTT estimator's float arithmetic stays constant), consecutive tids from a symbolic start,
/// symbolic specified destinations.
fn fresh_socket(n: usize, first: u32, tos: [SocketAddrV4; 3]) -> KrpcSocket {
    kani::assume(first <= u32::MAX - 3); // sortedness of the table is the code's own invariant
    kani::assume(!tos[0].ip().is_unspecified() && !tos[1].ip().is_unspecified() && !tos[2].ip().is_unspecified());
    socket_with(kani::any(), table(n, first, tos, [100, 100, 100]))
}

/// The heart of C09 (all entries fresh, destination specified):
///   accepted  <=>  some entry has the message's tid AND was sent to `from`;
///   accepted  ==>  exactly that entry is removed, the others are kept in order;
///   rejected  ==>  the table is unchanged.
#[kani::proof]
#[kani::unwind(5)]
#[kani::stub(std::time::Instant::now, clock::mock_now)]
#[kani::stub(std::time::Instant::elapsed, clock::mock_elapsed)]
fn c09_is_expected_response_matches_tid_and_address() {
    let n: usize = kani::any();
    kani::assume(n <= 3);
    let first: u32 = kani::any();
    let tos = [any_addr(), any_addr(), any_addr()];
    let mut sock = fresh_socket(n, first, tos);

    let msg_tid: u32 = kani::any();
    let from = any_addr();
    let msg = reply(msg_tid);

    // specification, from the property statement
    let k = msg_tid.wrapping_sub(first) as usize; // index of the entry with that tid, if < n
    let owns = k < n;
    let ko = if owns { k } else { 0 };
    let want = owns && spec::attributed(first.wrapping_add(ko as u32), tos[ko].ip().to_bits(), tos[ko].port(), false,
                                        msg_tid, from.ip().to_bits(), from.port());

    let got = sock.is_expected_response(&msg, &from);
    assert!(got == want);

    let t = &sock.inflight_requests;
    if got {
        assert!(t.requests.len() == n - 1);
        let i: usize = kani::any();
        kani::assume(i < n - 1);
        let j = if i < k { i } else { i + 1 };
        assert!(t.requests[i].tid == first.wrapping_add(j as u32) && t.requests[i].to == tos[j]);
    } else {
        assert!(t.requests.len() == n);
        let i: usize = kani::any();
        kani::assume(i < n);
        assert!(t.requests[i].tid == first.wrapping_add(i as u32) && t.requests[i].to == tos[i]);
    }
    kani::cover!(got && n == 3 && k == 1);
    kani::cover!(!got && owns && from.ip() != tos[k].ip());
    kani::cover!(!got && owns && from.ip() == tos[k].ip() && from.port() != tos[k].port());
    kani::cover!(!got && !owns && n == 3);
    core::mem::forget(sock);
}

/// Two-message histories: a rejected message (spoof) does not prevent the genuine reply from
/// being accepted afterwards, and an accepted reply is consumed: its duplicate is rejected.
#[kani::proof]
#[kani::unwind(5)]
#[kani::stub(std::time::Instant::now, clock::mock_now)]
#[kani::stub(std::time::Instant::elapsed, clock::mock_elapsed)]
fn c09_spoof_then_genuine_then_duplicate() {
    let n: usize = kani::any();
    kani::assume(n >= 1 && n <= 2);
    let first: u32 = kani::any();
    let tos = [any_addr(), any_addr(), any_addr()];
    let mut sock = fresh_socket(n, first, tos);
    let k: usize = kani::any();
    kani::assume(k < n);
    let tid = first.wrapping_add(k as u32);
    let spoofer = any_addr();
    kani::assume(spoofer != tos[k]);
    let msg = reply(tid);
    assert!(!sock.is_expected_response(&msg, &spoofer)); // right tid, wrong address
    assert!(sock.is_expected_response(&msg, &tos[k])); // genuine reply still accepted
    assert!(!sock.is_expected_response(&msg, &tos[k])); // consumed at most once
    assert!(sock.inflight_requests.requests.len() == n - 1);
    kani::cover!(n == 2 && k == 0 && spoofer.ip() == tos[k].ip());
    core::mem::forget(sock);
}

/// KNOWN FINDING D9: an entry past the request timeout still matches a late reply.
/// The property lists "expired" among the messages that must have no effect.
#[kani::proof]
#[kani::unwind(5)]
#[kani::stub(std::time::Instant::now, clock::mock_now)]
#[kani::stub(std::time::Instant::elapsed, clock::mock_elapsed)]
fn c09_finding_expired_entry_still_matches() {
    let to = addr(0x0102_0304, 6881);
    let mut sock = socket_with(true, table(1, 7, [to, to, to], [2000, 0, 0]));
    assert!(!sock.inflight(&7)); // expired: `get` no longer reports it in flight
    let accepted = sock.is_expected_response(&reply(7), &to);
    assert!(!accepted, "D9: reply to an expired request accepted");
    core::mem::forget(sock);
}

/// get(tid) (the liveness test used by every query): Some iff an entry with that tid exists and
/// its age is below request_timeout(); regardless of any reply. C06's "requests expire".
#[kani::proof]
#[kani::unwind(5)]
#[kani::stub(std::time::Instant::now, clock::mock_now)]
#[kani::stub(std::time::Instant::elapsed, clock::mock_elapsed)]
fn c06_inflight_iff_present_and_younger_than_timeout() {
    let n: usize = kani::any();
    kani::assume(n <= 3);
    let first: u32 = kani::any();
    kani::assume(first <= u32::MAX - 3);
    let to = addr(0x0102_0304, 1);
    let ages: [u64; 3] = [kani::any(), kani::any(), kani::any()];
    kani::assume(ages[0] <= 5000 && ages[1] <= ages[0] && ages[2] <= ages[1]); // sent in order
    let sock = socket_with(true, table(n, first, [to, to, to], ages));
    let tid: u32 = kani::any();
    let k = tid.wrapping_sub(first) as usize;
    let want = k < n && ages[if k < n { k } else { 0 }] < 500;
    assert!(sock.inflight(&tid) == want);
    assert!(sock.inflight_requests.request_timeout() == MIN_REQUEST_TIMEOUT);
    kani::cover!(k < n && ages[k] == 499 && want);
    kani::cover!(k < n && ages[k] == 500 && !want);
    core::mem::forget(sock);
}

/// cleanup(): never removes a live entry, keeps the order, and only drops entries older than the
/// timeout (C20: "expired in-flight entries dropped", C06: a live request is never forgotten).
#[kani::proof]
#[kani::unwind(5)]
#[kani::stub(std::time::Instant::now, clock::mock_now)]
#[kani::stub(std::time::Instant::elapsed, clock::mock_elapsed)]
fn c20_cleanup_drops_only_expired_prefix() {
    let first: u32 = kani::any();
    kani::assume(first <= u32::MAX - 3);
    let to = addr(0x0102_0304, 1);
    let ages: [u64; 3] = [kani::any(), kani::any(), kani::any()];
    kani::assume(ages[0] <= 5000 && ages[1] <= ages[0] && ages[2] <= ages[1]);
    let mut t = InflightRequests::new();
    t.requests = Vec::with_capacity(3);
    let mut i = 0usize;
    while i < 3 {
        t.requests.push(InflightRequest { tid: first + i as u32, to, sent_at: clock::ago_ms(ages[i]) });
        i += 1;
    }
    kani::assume(t.requests.len() == t.requests.capacity()); // the only case in which cleanup acts
    t.cleanup();
    let removed = 3 - t.requests.len();
    kani::cover!(removed == 3);
    kani::cover!(removed == 1);
    kani::cover!(removed == 0);
    // what is left is the suffix
    let j: usize = kani::any();
    kani::assume(j < t.requests.len());
    assert!(t.requests[j].tid == first + (removed + j) as u32);
    // nothing live was removed (live <=> younger than the timeout, as in `get`; an entry exactly at
    // the timeout is already expired and may or may not be dropped)
    let r: usize = kani::any();
    kani::assume(r < removed);
    assert!(ages[r] >= 500, "C20/C06: cleanup never forgets a request that is still in flight");
    // everything strictly older than the timeout was removed
    let s: usize = kani::any();
    kani::assume(s < 3 && ages[s] > 500);
    assert!(s < removed);
    core::mem::forget(t);
}

// ---------------------------------------------------------------------------------------------
// C18: read-only flag on everything a node sends
// ---------------------------------------------------------------------------------------------

/// request_message / response_message: read_only == !server_mode; tid and payload preserved;
/// requester_ip only on responses.
#[kani::proof]
fn c18_outgoing_messages_carry_ro_iff_client() {
    let server_mode: bool = kani::any();
    let mut sock = socket_with(server_mode, InflightRequests::new());
    let tid: u32 = kani::any();
    let m = sock.request_message(
        tid,
        RequestSpecific { requester_id: Id::from([2u8; 20]), request_type: crate::common::RequestTypeSpecific::Ping },
    );
    assert!(m.read_only == !server_mode);
    assert!(m.transaction_id == tid);
    assert!(m.requester_ip.is_none());
    let to = any_addr();
    let r = sock.response_message(
        MessageType::Response(ResponseSpecific::Ping(PingResponseArguments { responder_id: Id::from([3u8; 20]) })),
        to,
        tid,
    );
    assert!(r.read_only == !server_mode);
    assert!(r.transaction_id == tid);
    assert!(r.requester_ip == Some(to));
    core::mem::forget(m);
    core::mem::forget(r);
    core::mem::forget(sock);
}


// ---------------------------------------------------------------------------------------------
// C09: recv_from is the only way a datagram reaches the core. Responses AND errors are handed on
// only if is_expected_response accepts them for their source address; requests are handed on as
// they are; datagrams from port 0 are dropped. The UDP read and the bencode parser are replaced by
// ghost values (a datagram from an arbitrary address that parses to an arbitrary kind of message).
// ---------------------------------------------------------------------------------------------
static mut RX_FROM: (u32, u16) = (0, 0);
static mut RX_KIND: u8 = 0; // 0 request, 1 response, 2 error
static mut RX_TID: u32 = 0;
static mut GATE_CALLS: u32 = 0;
static mut GATE_FROM: (u32, u16) = (0, 0);
static mut GATE_TID: u32 = 0;
static mut GATE_VERDICT: bool = false;

fn stub_udp_recv_from(_s: &UdpSocket, _buf: &mut [u8]) -> std::io::Result<(usize, SocketAddr)> {
    let (ip, port) = unsafe { RX_FROM };
    Ok((20, SocketAddr::V4(addr(ip, port))))
}
fn stub_set_read_timeout(_s: &UdpSocket, _d: Option<Duration>) -> std::io::Result<()> {
    Ok(())
}
fn stub_from_bytes(_bytes: &[u8]) -> Result<Message, crate::common::DecodeMessageError> {
    let tid = unsafe { RX_TID };
    let mt = match unsafe { RX_KIND } {
        0 => MessageType::Request(RequestSpecific { requester_id: Id::from([2u8; 20]), request_type: crate::common::RequestTypeSpecific::Ping }),
        1 => MessageType::Response(ResponseSpecific::Ping(PingResponseArguments { responder_id: Id::from([1u8; 20]) })),
        _ => MessageType::Error(crate::common::ErrorSpecific { code: 203, description: String::new() }),
    };
    Ok(Message { transaction_id: tid, version: None, requester_ip: None, read_only: false, message_type: mt })
}
fn stub_gate(_s: &mut KrpcSocket, message: &Message, from: &SocketAddrV4) -> bool {
    unsafe {
        GATE_CALLS += 1;
        GATE_FROM = (from.ip().to_bits(), from.port());
        GATE_TID = message.transaction_id;
        GATE_VERDICT
    }
}

fn recv_case(kind: u8) -> (bool, bool) {
    let mut sock = socket_with(true, InflightRequests::new());
    let ip: u32 = kani::any();
    let port: u16 = kani::any();
    let tid: u32 = kani::any();
    let verdict: bool = kani::any();
    unsafe {
        RX_FROM = (ip, port);
        RX_KIND = kind;
        RX_TID = tid;
        GATE_VERDICT = verdict;
    }
    let r = sock.recv_from();
    let got = r.is_some();
    if port == 0 {
        assert!(!got && unsafe { GATE_CALLS } == 0, "a datagram from port 0 is dropped");
    } else if kind == 0 {
        assert!(got && unsafe { GATE_CALLS } == 0, "requests are handed on as they are");
    } else {
        assert!(unsafe { GATE_CALLS } == 1 && unsafe { GATE_FROM } == (ip, port) && unsafe { GATE_TID } == tid,
            "C09: every response and every error message goes through is_expected_response with its real source address and its transaction id");
        assert!(got == verdict, "C09: ... and reaches the core only if that gate accepts it");
    }
    if let Some((m, from)) = &r {
        assert!(m.transaction_id == tid && from.port() == port && from.ip().to_bits() == ip);
    }
    core::mem::forget(r);
    core::mem::forget(sock);
    (got, port == 0)
}

macro_rules! recv_harness {
    ($name:ident, $kind:expr) => {
        #[kani::proof]
        #[kani::unwind(5)]
        #[kani::stub(std::time::Instant::now, clock::mock_now)]
        #[kani::stub(std::time::Instant::elapsed, clock::mock_elapsed)]
        #[kani::stub(std::net::UdpSocket::recv_from, stub_udp_recv_from)]
        #[kani::stub(std::net::UdpSocket::set_read_timeout, stub_set_read_timeout)]
        #[kani::stub(Message::from_bytes, stub_from_bytes)]
        #[kani::stub(KrpcSocket::is_expected_response, stub_gate)]
        fn $name() {
            let (got, port0) = recv_case($kind);
            kani::cover!(got);
            kani::cover!(!got && !port0 || $kind == 0);
        }
    };
}
recv_harness!(c09_recv_from_hands_on_requests, 0);
recv_harness!(c09_recv_from_gates_responses_by_tid_and_source_address, 1);
recv_harness!(c09_recv_from_gates_error_messages_by_tid_and_source_address, 2);

// ---------------------------------------------------------------------------------------------
// C06/C05: the RTT estimator never panics and the request timeout stays finite and >= 500 ms,
// whatever sample arrives (late replies included) — floating-point arithmetic, bounded ranges
// ---------------------------------------------------------------------------------------------
#[kani::proof]
fn c06_rtt_update_never_panics_and_keeps_a_finite_timeout() {
    let mut t = InflightRequests::new();
    let est_ms: u16 = kani::any();
    let dev_ms: u16 = kani::any();
    let sample_ms: u32 = kani::any();
    kani::assume(est_ms >= 500 && sample_ms <= 3_600_000);
    t.estimated_rtt = Duration::from_millis(est_ms as u64);
    t.deviation_rtt = Duration::from_millis(dev_ms as u64);
    t.update_rtt_estimates(Duration::from_millis(sample_ms as u64));
    let timeout = t.request_timeout();
    assert!(timeout >= Duration::from_millis(499), "C06: the request timeout never drops below (about) 500 ms");
    assert!(timeout <= Duration::from_secs(5 * 3600), "C06: ... and stays finite: every request stops being in flight eventually");
    kani::cover!(sample_ms < est_ms as u32 && sample_ms >= 500, "a sample below the current estimate");
    kani::cover!(sample_ms > 600_000, "a very late reply");
}
