// Kani harness module for src/common.rs (child `verif_kani` of `common`): re-exports the contract
// stubs that live next to private items of `common`'s private submodules, so that harnesses in
// `core::*` can name them.
pub(crate) use super::mutable::verif_kani as mutable;
pub(crate) use super::signed_announce::verif_kani as signed_announce;
pub(crate) use super::node::verif_kani as node;
pub(crate) use super::routing_table::verif_kani as routing_table;
pub(crate) use super::closest_nodes::verif_kani as closest_nodes;
