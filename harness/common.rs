// Kani harness module for src/common.rs (child `verif_kani` of `common`): re-exports the contract
// stubs that live next to private items of `common`'s private submodules, so that harnesses in
// `core::*` can name them.
pub(crate) use super::mutable::verif_kani as mutable;
pub(crate) use super::signed_announce::verif_kani as signed_announce;
