// Kani harness module for src/common/closest_nodes.rs (child `verif_kani`). Property C11.
use super::*;
use crate::common::node::verif_kani::{node_aged, stub_is_valid_for_ip};
use std::net::SocketAddrV4;

mod spec {
    include!("/verif/spec/order.rs");
}

/// lexicographic comparison of (a xor t) and (b xor t): -1 a closer, 0 equal, 1 b closer
fn xor_cmp(a: &[u8; 20], b: &[u8; 20], t: &[u8; 20]) -> i8 {
    let mut i = 0usize;
    while i < 20 {
        let x = a[i] ^ t[i];
        let y = b[i] ^ t[i];
        if x < y {
            return -1;
        }
        if x > y {
            return 1;
        }
        i += 1;
    }
    0
}

fn sec(id: &[u8; 20], ip3: u8) -> bool {
    (id[19] ^ ip3) & 1 == 1
}

fn node(id: [u8; 20], ip0: u8, ip3: u8) -> Node {
    node_aged(Id::from(id), SocketAddrV4::new(std::net::Ipv4Addr::new(ip0, 0, 0, ip3), 1), 0)
}

/// K-total: the insertion position chosen by the comparator closure of ClosestNodes::add is the one
/// the order of the statement dictates — for ALL targets and ALL pairs of ids (3 x 160 bits) and
/// both security classes of each node. (A one-element accumulator makes binary_search_by evaluate
/// the closure exactly once, on that pair.)
#[kani::proof]
#[kani::unwind(22)]
#[kani::stub(Id::is_valid_for_ip, stub_is_valid_for_ip)]
fn c11_insert_position_is_secure_first_then_xor_distance() {
    let t: [u8; 20] = kani::any();
    let a: [u8; 20] = kani::any();
    let b: [u8; 20] = kani::any();
    let ipa3: u8 = kani::any();
    let ipb3: u8 = kani::any();
    let mut c = ClosestNodes { target: Id::from(t), nodes: vec![node(a, 10, ipa3)] };
    c.add(node(b, 11, ipb3)); // different IPs: the per-IP rule does not interfere
    let sa = sec(&a, ipa3);
    let sb = sec(&b, ipb3);
    let cmp = xor_cmp(&a, &b, &t);
    if a == b && sa == sb {
        assert!(c.nodes.len() == 1, "an id already present in the same class is not inserted twice");
    } else {
        assert!(c.nodes.len() == 2);
        let a_first = c.nodes[0].address().ip().octets()[0] == 10;
        assert!(c.nodes[if a_first { 1 } else { 0 }].address().ip().octets()[0] == 11);
        if a_first {
            assert!(spec::before(sa, sb, cmp) || (a == b), "C11: secure first, then XOR distance to the target");
            assert!(!spec::before(sb, sa, -cmp));
        } else {
            assert!(spec::before(sb, sa, -cmp), "C11: secure first, then XOR distance to the target");
        }
    }
    kani::cover!(c.nodes.len() == 2 && sa && !sb);
    kani::cover!(c.nodes.len() == 2 && sa == sb && cmp > 0, "inserted in front: closer");
    kani::cover!(c.nodes.len() == 2 && sa == sb && cmp < 0, "inserted behind: farther");
    kani::cover!(c.nodes.len() == 1);
    core::mem::forget(c);
}

fn id2(b0: u8, b1: u8, b19: u8) -> [u8; 20] {
    let mut x = [0x55u8; 20];
    x[0] = b0;
    x[1] = b1;
    x[19] = b19;
    x
}

fn sorted(c: &ClosestNodes, t: &[u8; 20]) -> bool {
    let mut ok = true;
    let mut i = 0usize;
    while i + 1 < c.nodes.len() {
        let x = c.nodes[i].id().as_bytes();
        let y = c.nodes[i + 1].id().as_bytes();
        let sx = sec(x, c.nodes[i].address().ip().octets()[3]);
        let sy = sec(y, c.nodes[i + 1].address().ip().octets()[3]);
        ok = ok && spec::before(sx, sy, xor_cmp(x, y, t));
        i += 1;
    }
    ok
}

/// One add on an arbitrary SORTED accumulator of `n` nodes: the result is sorted, every old node is
/// kept in place order, and the new node is in iff the per-IP rule admits it and its id is not
/// already there in the same class.
fn add_case(n: usize) {
    let t = id2(kani::any(), kani::any(), 0);
    let mut c = ClosestNodes { target: Id::from(t), nodes: Vec::with_capacity(4) };
    let mut k = 0usize;
    while k < n {
        // pre-state nodes on distinct IPs 20+k
        c.nodes.push(node(id2(kani::any(), kani::any(), kani::any()), 20 + k as u8, kani::any()));
        k += 1;
    }
    kani::assume(sorted(&c, &t));
    let nb = id2(kani::any(), kani::any(), kani::any());
    let nip0: u8 = kani::any();
    kani::assume(nip0 >= 20 && nip0 <= 22);
    let nip3: u8 = kani::any();
    let new = node(nb, nip0, nip3);
    let blocked = new.already_exists(&c.nodes);
    let mut same_id_same_class = false;
    let mut k = 0usize;
    while k < n {
        let e = &c.nodes[k];
        if e.id().as_bytes() == &nb && sec(e.id().as_bytes(), e.address().ip().octets()[3]) == sec(&nb, nip3) {
            same_id_same_class = true;
        }
        k += 1;
    }
    let ptr = std::sync::Arc::as_ptr(&new.0);
    c.add(new);
    assert!(sorted(&c, &t), "C11: the accumulator stays in secure-first / XOR-distance order");
    let mut present = false;
    let mut k = 0usize;
    while k <= n {
        if k < c.nodes.len() && std::sync::Arc::as_ptr(&c.nodes[k].0) == ptr {
            present = true;
        }
        k += 1;
    }
    assert!(present == (!blocked && !same_id_same_class), "C11: inserted iff admitted by the per-IP rule and not already present");
    assert!(c.nodes.len() == n + if present { 1 } else { 0 }, "C11: insertion never drops a node");
    kani::cover!(present && n > 0 && std::sync::Arc::as_ptr(&c.nodes[0].0) == ptr, "inserted at the front");
    kani::cover!(present && n > 0 && std::sync::Arc::as_ptr(&c.nodes[n].0) == ptr, "inserted at the back");
    kani::cover!(!present && blocked);
    core::mem::forget(c);
}

#[kani::proof]
#[kani::unwind(22)]
#[kani::stub(Id::is_valid_for_ip, stub_is_valid_for_ip)]
fn c11_add_keeps_order_on_accumulator_of_1() {
    add_case(1)
}

#[kani::proof]
#[kani::unwind(22)]
#[kani::stub(Id::is_valid_for_ip, stub_is_valid_for_ip)]
fn c11_add_keeps_order_on_accumulator_of_2() {
    add_case(2)
}

/// take_until_secure returns a PREFIX of the accumulator of length >= min(20, available).
/// `est` (the size estimate) is concrete per harness: the float expression
/// 20 * 2^128 / (est + 1) is then folded by the compiler front end; with a symbolic `est` CBMC's
/// float model exhausted 10 GB.
fn take_small_n(est: usize, n: usize) {
    let t = id2(0, 0, 0);
    let mut c = ClosestNodes { target: Id::from(t), nodes: Vec::with_capacity(4) };
    let mut k = 0usize;
    while k < n {
        c.nodes.push(node(id2(kani::any(), k as u8, 0), 20 + k as u8, kani::any()));
        k += 1;
    }
    let subnets: usize = kani::any();
    kani::assume(subnets <= 3);
    let r = c.take_until_secure(est, subnets);
    assert!(r.as_ptr() == c.nodes.as_ptr(), "C11: a prefix of the accumulator's order");
    assert!(r.len() == n, "C11: with fewer than 20 available, all of them");
    core::mem::forget(c);
}

/// (the number of nodes is concrete per call: a symbolic length makes the scan loop run to the
/// unwinding bound)
fn take_small(est: usize) {
    take_small_n(est, 0);
    take_small_n(est, 1);
    take_small_n(est, 3);
}

fn take_21(est: usize) -> usize {
    let t = id2(0, 0, 0);
    // stack-backed node buffer (read-only here): CBMC folds loops over stack slices
    let mut slab: [core::mem::MaybeUninit<Node>; 21] = unsafe { core::mem::MaybeUninit::uninit().assume_init() };
    let far: u8 = kani::any(); // how far the farthest nodes are: decides where the scan stops
    let mut k = 0usize;
    while k < 21 {
        slab[k].write(node(id2(if k < 10 { 0 } else { far }, k as u8, 0), 20, k as u8));
        k += 1;
    }
    let c = ClosestNodes { target: Id::from(t), nodes: unsafe { Vec::from_raw_parts(slab.as_mut_ptr() as *mut Node, 21, 21) } };
    let subnets: usize = kani::any();
    kani::assume(subnets <= 2);
    let r = c.take_until_secure(est, subnets);
    assert!(r.as_ptr() == c.nodes.as_ptr(), "C11: a prefix of the accumulator's order");
    assert!(r.len() >= 20 && r.len() <= 21, "C11: at least min(20, available)");
    let l = r.len();
    core::mem::forget(c);
    l
}

macro_rules! take_harness {
    ($name:ident, $body:expr) => {
        #[kani::proof]
        #[kani::unwind(23)]
        #[kani::stub(Id::is_valid_for_ip, stub_is_valid_for_ip)]
        fn $name() {
            $body
        }
    };
}
take_harness!(c11_take_until_secure_is_a_prefix_small_estimate_0, take_small(0));
take_harness!(c11_take_until_secure_is_a_prefix_small_estimate_1e6, take_small(1_000_000));
take_harness!(c11_take_until_secure_is_a_prefix_small_estimate_max, take_small(usize::MAX));
take_harness!(c11_take_until_secure_returns_at_least_20_of_21_estimate_1e6, {
    let l = take_21(1_000_000);
    kani::cover!(l == 21);
});
take_harness!(c11_take_until_secure_returns_at_least_20_of_21_estimate_max, {
    let l = take_21(usize::MAX);
    kani::cover!(l == 20);
    kani::cover!(l == 21);
});

/// appends a node to the accumulator without going through add() (for harnesses of callers that
/// need a pre-built, already ordered accumulator and a small unwinding bound)
pub(crate) fn push_raw(c: &mut ClosestNodes, n: Node) {
    c.nodes.push(n);
}

/// an accumulator around a given (e.g. stack-backed) node buffer, already in order
pub(crate) fn with_nodes(target: Id, nodes: Vec<Node>) -> ClosestNodes {
    ClosestNodes { target, nodes }
}

/// quick-tier instance of the ">= min(20, available)" clause at the boundary: 21 concrete nodes, a
/// size estimate so large that the distance criterion is met at once, no subnet requirement — the
/// scan stops immediately, and the floor of 20 must still apply
#[kani::proof]
#[kani::unwind(23)]
#[kani::stub(Id::is_valid_for_ip, stub_is_valid_for_ip)]
fn c11_take_until_secure_keeps_the_floor_of_20_when_the_scan_stops_at_once() {
    let t = id2(0, 0, 0);
    let mut slab: [core::mem::MaybeUninit<Node>; 21] = unsafe { core::mem::MaybeUninit::uninit().assume_init() };
    let mut k = 0usize;
    while k < 21 {
        slab[k].write(node(id2(0xFF, k as u8, 0), 20, k as u8));
        k += 1;
    }
    let c = ClosestNodes { target: Id::from(t), nodes: unsafe { Vec::from_raw_parts(slab.as_mut_ptr() as *mut Node, 21, 21) } };
    let r = c.take_until_secure(usize::MAX, 0);
    assert!(r.as_ptr() == c.nodes.as_ptr(), "C11: a prefix of the accumulator's order");
    assert!(r.len() >= 20 && r.len() <= 21, "C11: at least min(20, available), whatever the scan decided");
    core::mem::forget(c);
}

// ---- recording stub for take_until_secure (for harnesses of its callers) ------------------------
pub(crate) static mut TUS_CALLS: u32 = 0;
pub(crate) static mut TUS_ARGS: (usize, usize) = (0, 0);
pub(crate) static mut TUS_TAKE: usize = 0;
pub(crate) fn stub_take_until_secure(c: &ClosestNodes, previous_dht_size_estimate: usize, average_subnets: usize) -> &[Node] {
    unsafe {
        TUS_CALLS += 1;
        TUS_ARGS = (previous_dht_size_estimate, average_subnets);
        let k = if TUS_TAKE < c.nodes.len() { TUS_TAKE } else { c.nodes.len() };
        &c.nodes[..k]
    }
}
