// Kani harness module for src/common/node.rs (child `verif_kani`): constructors with a ghost
// last_seen, the stand-in for the BEP42 security predicate, and Node's own small contracts.
use super::*;

include!("/verif/harness/support.rs");

/// a node last seen `age_ms` before the ghost now
pub(crate) fn node_aged(id: Id, address: SocketAddrV4, age_ms: u64) -> Node {
    Node(Arc::new(NodeInner { id, address, token: None, last_seen: clock::ago_ms(age_ms) }))
}

/// was this node stamped with the ghost clock's current instant? (an Instant comparison; reading the
/// age back in milliseconds goes through u128 multiplication and division of values CBMC reads from
/// the heap, i.e. symbolic ones: a three-line harness ran 15 minutes on that)
pub(crate) fn seen_just_now(n: &Node) -> bool {
    n.0.last_seen == clock::mock_now()
}

/// Stand-in for Id::is_valid_for_ip in harnesses where the CRC itself is not the subject (its own
/// contract is C19): an arbitrary but FIXED predicate of (id, ip) — the parity of the id's last
/// byte xor the ip's last octet — so the harness controls each node's security class through
/// symbolic bytes while two evaluations for the same (id, ip) agree.
pub(crate) fn stub_is_valid_for_ip(id: &Id, ip: std::net::Ipv4Addr) -> bool {
    (id.as_bytes()[19] ^ ip.octets()[3]) & 1 == 1
}

/// K-total: is_stale / should_ping / valid_token are exactly the 15 min / 10 s / 5 min thresholds
#[kani::proof]
#[kani::unwind(3)]
#[kani::stub(std::time::Instant::now, clock::mock_now)]
#[kani::stub(std::time::Instant::elapsed, clock::mock_elapsed)]
fn c14_node_age_thresholds() {
    let secs: u64 = kani::any();
    let ms: u64 = if kani::any() { 0 } else if kani::any() { 1 } else { 999 };
    kani::assume(secs <= 4 * 3600);
    let age = secs * 1000 + ms;
    let n = Node(Arc::new(NodeInner { id: Id::from([1u8; 20]), address: SocketAddrV4::new(1u32.into(), 1), token: None, last_seen: clock::ago_parts(secs, ms) }));
    assert!(n.is_stale() == (age > 15 * 60 * 1000), "C12/C14: stale <=> not heard from for more than 15 minutes");
    assert!(n.should_ping() == (age > 10_000));
    assert!(n.valid_token() == (age <= 5 * 60 * 1000));
    kani::cover!(age == 900_000);
    kani::cover!(age == 900_001);
    kani::cover!(age == 899_999);
    core::mem::forget(n);
}

/// K-total: Node::new stamps the node with the current time and no token
#[kani::proof]
#[kani::unwind(22)]
#[kani::stub(std::time::Instant::now, clock::mock_now)]
#[kani::stub(std::time::Instant::elapsed, clock::mock_elapsed)]
fn c14_new_node_is_fresh() {
    let id: [u8; 20] = kani::any();
    let a = SocketAddrV4::new(kani::any::<u32>().into(), kani::any());
    let n = Node::new(Id::from(id), a);
    assert!(seen_just_now(&n) && !n.is_stale() && n.address() == a && n.id().as_bytes() == &id && n.token().is_none());
    core::mem::forget(n);
}

/// K-total: the per-IP rule. already_exists(nodes) <=> some existing node has the same IP and is
/// either not secure or shares the candidate's first 21 id bits.
#[kani::proof]
#[kani::unwind(22)]
#[kani::stub(Id::is_valid_for_ip, stub_is_valid_for_ip)]
fn c12_already_exists_is_the_per_ip_rule() {
    let ia: [u8; 20] = kani::any();
    let ib: [u8; 20] = kani::any();
    let ic: [u8; 20] = kani::any();
    let a = node_aged(Id::from(ia), SocketAddrV4::new(kani::any::<u32>().into(), kani::any()), 0);
    let b = node_aged(Id::from(ib), SocketAddrV4::new(kani::any::<u32>().into(), kani::any()), 0);
    let c = node_aged(Id::from(ic), SocketAddrV4::new(kani::any::<u32>().into(), kani::any()), 0);
    let clash = |x: &Node| x.address().ip() == a.address().ip()
        && (!x.is_secure() || (x.id().as_bytes()[0] == ia[0] && x.id().as_bytes()[1] == ia[1] && (x.id().as_bytes()[2] & 0xf8) == (ia[2] & 0xf8)));
    let want = clash(&b) || clash(&c);
    let got = a.already_exists(&[b.clone(), c.clone()]);
    assert!(got == want, "C12: per IP at most one insecure node and no two secure nodes sharing a 21-bit prefix");
    assert!(!a.already_exists(&[]));
    kani::cover!(got && b.is_secure());
    kani::cover!(got && !b.is_secure());
    kani::cover!(!got && a.address().ip() == b.address().ip());
}
