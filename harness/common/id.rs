// Kani harnesses for src/common/id.rs — spliced in as the child module `verif_kani`
// (`#[cfg(kani)] #[path = "/verif/harness/common/id.rs"] mod verif_kani;`), so the private
// functions `first_21_bits`, `from_ipv4_and_r`, `id_prefix_ipv4` are reached as unit tests do.
// Property C19. Specification functions come from /verif/spec/id.rs.
use super::*;

mod spec {
    include!("/verif/spec/id.rs");
}

fn any_id() -> Id {
    let b: [u8; 20] = kani::any();
    Id::from(b)
}

/// Length of the common bit prefix of two ids, computed bit by bit from the definition.
fn common_prefix_len(a: &[u8; 20], b: &[u8; 20]) -> u8 {
    let mut i = 0usize;
    while i < 20 {
        if a[i] != b[i] {
            return (i as u8) * 8 + spec::common_prefix_bits_u8(a[i], b[i]);
        }
        i += 1;
    }
    160
}

/// K-total: distance(a,b) == 160 - |common bit prefix|, symmetric, zero iff equal — all 2^320 pairs.
#[kani::proof]
#[kani::unwind(22)]
fn c19_distance_is_160_minus_common_prefix() {
    let a = any_id();
    let b = any_id();
    let d = a.distance(&b);
    assert!(d == 160 - common_prefix_len(a.as_bytes(), b.as_bytes()));
    assert!(d == b.distance(&a));
    assert!((d == 0) == (a == b));
    assert!(d <= 160);
    kani::cover!(d == 160);
    kani::cover!(d == 1);
    kani::cover!(d == 0);
}

/// K-total: consistency with byte-wise XOR order: a^t < b^t  ==>  distance(a,t) <= distance(b,t).
#[kani::proof]
#[kani::unwind(22)]
fn c19_distance_consistent_with_xor_order() {
    let a = any_id();
    let b = any_id();
    let t = any_id();
    let xa = a.xor(&t);
    let xb = b.xor(&t);
    // xor is the byte-wise xor
    let i: usize = kani::any();
    kani::assume(i < 20);
    assert!(xa.as_bytes()[i] == a.as_bytes()[i] ^ t.as_bytes()[i]);
    if xa < xb {
        assert!(a.distance(&t) <= b.distance(&t));
    }
    if a.distance(&t) < b.distance(&t) {
        assert!(xa < xb);
    }
    kani::cover!(xa < xb && a.distance(&t) == b.distance(&t));
    kani::cover!(xa < xb && a.distance(&t) < b.distance(&t));
}

/// K-total: from_bytes is total, Ok exactly for 20 bytes, and then the identity on the bytes.
/// (Lengths 0..=41 symbolic; the function does not look at the contents beyond the length test.)
#[kani::proof]
#[kani::unwind(22)]
fn c19_from_bytes_total() {
    let buf: [u8; 41] = kani::any();
    let len: usize = kani::any();
    kani::assume(len <= 41);
    let r = Id::from_bytes(&buf[..len]);
    assert!(r.is_ok() == (len == 20));
    if let Ok(id) = &r {
        let i: usize = kani::any();
        kani::assume(i < 20);
        assert!(id.as_bytes()[i] == buf[i]);
    }
    kani::cover!(r.is_ok());
    kani::cover!(len == 21 && r.is_err());
    kani::cover!(len == 0 && r.is_err());
    core::mem::forget(r);
}

/// K-total: is_valid_for_ip agrees with the BEP42 reference (independent bitwise CRC32C) for
/// every id and every IPv4 address, including the local-network exemption.
#[kani::proof]
#[kani::unwind(22)]
fn c19_is_valid_for_ip_matches_bep42() {
    let id = any_id();
    let ip: u32 = kani::any();
    let got = id.is_valid_for_ip(Ipv4Addr::from(ip));
    let b = id.as_bytes();
    let want = spec::bep42_valid(b[0], b[1], b[2], b[19], ip);
    assert!(got == want);
    kani::cover!(got && !spec::bep42_exempt(ip));
    kani::cover!(!got);
    kani::cover!(spec::bep42_exempt(ip));
}

/// K-total: the private prefix function equals the reference CRC for all 2^40 (ip, r).
#[kani::proof]
fn c19_id_prefix_ipv4_is_crc32c() {
    let ip: u32 = kani::any();
    let r: u8 = kani::any();
    let p = id_prefix_ipv4(Ipv4Addr::from(ip), r);
    let c = spec::bep42_crc(ip, r);
    assert!(p[0] == (c >> 24) as u8);
    assert!(p[1] == ((c >> 16) & 0xff) as u8);
    assert!(p[2] == ((c >> 8) & 0xff) as u8);
}

/// K-total: an id made for an ip is valid for that ip — every random fill, every ip, every r.
#[kani::proof]
#[kani::unwind(22)]
fn c19_from_ipv4_and_r_is_valid() {
    let fill: [u8; 20] = kani::any();
    let ip: u32 = kani::any();
    let r: u8 = kani::any();
    let id = from_ipv4_and_r(fill, Ipv4Addr::from(ip), r);
    assert!(id.is_valid_for_ip(Ipv4Addr::from(ip)));
    let b = id.as_bytes();
    assert!(spec::bep42_valid(b[0], b[1], b[2], b[19], ip));
    // the remaining 139 bits are the caller's randomness, untouched
    let i: usize = kani::any();
    kani::assume(i >= 3 && i < 19);
    assert!(b[i] == fill[i]);
    assert!(b[2] & 7 == fill[2] & 7);
    assert!(b[19] == r);
}

pub(crate) fn fill_symbolic(dest: &mut [u8]) -> Result<(), getrandom::Error> {
    // contract stub for getrandom::fill: any bytes at all
    let mut i = 0usize;
    while i < dest.len() {
        dest[i] = kani::any();
        i += 1;
    }
    Ok(())
}

/// K-total: Id::from_ipv4(ip) (randomness = any 21 bytes) is always valid for ip.
#[kani::proof]
#[kani::unwind(23)]
#[kani::stub(getrandom::fill, fill_symbolic)]
fn c19_from_ipv4_is_valid() {
    let ip: u32 = kani::any();
    let id = Id::from_ipv4(Ipv4Addr::from(ip));
    assert!(id.is_valid_for_ip(Ipv4Addr::from(ip)));
    let b = id.as_bytes();
    assert!(spec::bep42_valid(b[0], b[1], b[2], b[19], ip));
}

fn all_hex(b: &[u8]) -> bool {
    let mut i = 0usize;
    while i < b.len() {
        if spec::hex_val(b[i]) == 255 {
            return false;
        }
        i += 1;
    }
    true
}

/// K-total over all ASCII strings of byte length 40 (and K-bounded below for the other lengths):
/// from_str is Ok exactly when all 40 bytes are hex digits, and then byte i is 16*hi+lo.
#[kani::proof]
#[kani::unwind(42)]
fn c19_from_str_ascii40() {
    let b: [u8; 40] = kani::any();
    let mut i = 0usize;
    while i < 40 {
        kani::assume(b[i] < 128);
        i += 1;
    }
    let s = unsafe { core::str::from_utf8_unchecked(&b) };
    let r = Id::from_str(s);
    assert!(r.is_ok() == all_hex(&b));
    if let Ok(id) = &r {
        let j: usize = kani::any();
        kani::assume(j < 20);
        assert!(id.as_bytes()[j] == spec::hex_val(b[2 * j]) * 16 + spec::hex_val(b[2 * j + 1]));
    }
    kani::cover!(r.is_ok());
    kani::cover!(r.is_err());
    core::mem::forget(r);
}

/// K-bounded quick-tier stand-in for `c19_from_str_ascii40` (which needs ~9 min / 12 GB): 38 fixed
/// hex digits and one pair of fully symbolic ASCII bytes at pair position `p` (first, middle, last).
fn from_str_one_symbolic_pair(p: usize) {
    let mut b = [b'7'; 40];
    let hi: u8 = kani::any();
    let lo: u8 = kani::any();
    kani::assume(hi < 128 && lo < 128);
    b[2 * p] = hi;
    b[2 * p + 1] = lo;
    let s = unsafe { core::str::from_utf8_unchecked(&b) };
    let r = Id::from_str(s);
    let ok = spec::hex_val(hi) != 255 && spec::hex_val(lo) != 255;
    assert!(r.is_ok() == ok);
    if let Ok(id) = &r {
        assert!(id.as_bytes()[p] == spec::hex_val(hi) * 16 + spec::hex_val(lo));
        let j: usize = kani::any();
        kani::assume(j < 20 && j != p);
        assert!(id.as_bytes()[j] == 0x77);
    }
    kani::cover!(r.is_ok() && hi == b'F');
    kani::cover!(r.is_err() && hi == b'+');
    kani::cover!(r.is_err() && lo == b'g');
    core::mem::forget(r);
}

#[kani::proof]
#[kani::unwind(42)]
fn c19_from_str_ascii40_symbolic_pair_first() {
    from_str_one_symbolic_pair(0)
}

#[kani::proof]
#[kani::unwind(42)]
fn c19_from_str_ascii40_symbolic_pair_last() {
    from_str_one_symbolic_pair(19)
}

/// K-bounded (byte length <= 6, all valid UTF-8 including multi-byte scalars and signs):
/// never panics and is never Ok (40 hex digits are required).
#[kani::proof]
#[kani::unwind(8)]
fn c19_from_str_short_utf8_total() {
    let b: [u8; 6] = kani::any();
    let len: usize = kani::any();
    kani::assume(len <= 6);
    if let Ok(s) = core::str::from_utf8(&b[..len]) {
        let r = Id::from_str(s);
        assert!(r.is_err());
        kani::cover!(len == 4 && b[1] >= 0x80);
        kani::cover!(len == 2 && b[0] == b'+');
        core::mem::forget(r);
    }
}
