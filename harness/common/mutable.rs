// Kani harness module for src/common/mutable.rs (child `verif_kani`). Properties C03, C02.
//
// 1. `stub_from_dht_message`: the CONTRACT of MutableItem::from_dht_message made executable, used by
//    the harnesses of Server::handle_request (C03/C04) and Core::handle_response (C02):
//      Ok(item)  <=>  key is 32 bytes  &&  target == H(key || salt)  &&  sig is 64 bytes  &&  verify(..)
//      Ok(item)  ==>  item == { target, key, value: v, seq, signature, salt }  (the arguments, unchanged)
//    with H and verify replaced by ghost verdicts the calling harness chooses.
// 2. obligations that the REAL from_dht_message satisfies exactly that contract, down to the
//    dependency boundary (sha1_smol digest and ed25519-dalek verify are assumed: layer A).
use super::*;

pub(crate) static mut TARGET_MATCHES_KEY: bool = true; // ghost: target == SHA1(k || salt)
pub(crate) static mut SIG_OK: bool = true; // ghost: ed25519 verify(k, signable(seq, v, salt), sig)
pub(crate) static mut FDM_CALLS: u32 = 0;
pub(crate) static mut FDM_TARGET0: u8 = 0; // first byte of the target the caller passed

pub(crate) fn stub_from_dht_message(
    target: Id,
    key: &[u8],
    v: Box<[u8]>,
    seq: i64,
    signature: &[u8],
    salt: Option<Box<[u8]>>,
) -> Result<MutableItem, MutableError> {
    unsafe {
        FDM_CALLS += 1;
        FDM_TARGET0 = target.as_bytes()[0];
    }
    let key: [u8; 32] = match key.try_into() {
        Ok(k) => k,
        Err(_) => return Err(MutableError::InvalidMutablePublicKey),
    };
    if !unsafe { TARGET_MATCHES_KEY } {
        return Err(MutableError::InvalidMutablePublicKey);
    }
    let signature: [u8; 64] = match signature.try_into() {
        Ok(s) => s,
        Err(_) => return Err(MutableError::InvalidMutableSignature),
    };
    if !unsafe { SIG_OK } {
        return Err(MutableError::InvalidMutableSignature);
    }
    Ok(MutableItem { target, key, value: v, seq, signature, salt })
}

/// direct construction of a stored item (pre-states of the server harnesses)
pub(crate) fn item(target: Id, key: [u8; 32], seq: i64, value: Box<[u8]>, signature: [u8; 64], salt: Option<Box<[u8]>>) -> MutableItem {
    MutableItem { target, key, value, seq, signature, salt }
}

pub(crate) fn salt_of(i: &MutableItem) -> &Option<Box<[u8]>> {
    &i.salt
}

// ---------------------------------------------------------------------------------------------
// Obligations: the REAL MutableItem::from_dht_message satisfies the contract assumed above.
// Dependency boundary (layer A, replaced by ghost verdicts here):
//   VerifyingKey::from_bytes        (curve arithmetic: is `k` a point)        -> KEY_IS_POINT
//   <VerifyingKey as Verifier>::verify (ed25519)                              -> SIG_OK (+ records the message)
//   MutableItem::target_from_key    (SHA-1 of k || salt)                      -> H_RESULT (an arbitrary id)
//   encode_signable                 (bencode text of seq/v/salt, uses format!) -> records (seq, v, salt) identity
// ---------------------------------------------------------------------------------------------
static mut KEY_IS_POINT: bool = true;
static mut H_RESULT: [u8; 20] = [0; 20];
static mut H_KEY0: u8 = 0;
static mut H_SALT_LEN: usize = 0;
static mut SIGNABLE_SEQ: i64 = 0;
static mut SIGNABLE_VLEN: usize = 0;
static mut SIGNABLE_SALT_LEN: usize = 0;
static mut VERIFY_CALLS: u32 = 0;
static mut VERIFY_SIG0: u8 = 0;
static mut VERIFY_MSG0: u8 = 0;
static mut VERIFY_KEY0: u8 = 0;

/// stand-in for VerifyingKey::from_bytes (point decompression). The struct's fields are private to
/// ed25519-dalek, so the key bytes are written over those of a default key through the pointer
/// `as_bytes()` hands out; the obligations below check that `as_bytes()/to_bytes()` then return them.
fn stub_vk_from_bytes(bytes: &[u8; 32]) -> Result<VerifyingKey, ed25519_dalek::SignatureError> {
    if unsafe { KEY_IS_POINT } {
        let vk = VerifyingKey::default();
        let p = vk.as_bytes().as_ptr() as usize as *mut u8;
        unsafe { core::ptr::copy_nonoverlapping(bytes.as_ptr(), p, 32) };
        Ok(vk)
    } else {
        Err(ed25519_dalek::SignatureError::new())
    }
}

fn stub_verify(k: &VerifyingKey, message: &[u8], signature: &Signature) -> Result<(), ed25519_dalek::SignatureError> {
    unsafe {
        VERIFY_CALLS += 1;
        VERIFY_SIG0 = signature.to_bytes()[0];
        VERIFY_MSG0 = if message.is_empty() { 0 } else { message[0] };
        VERIFY_KEY0 = k.as_bytes()[0];
        if SIG_OK { Ok(()) } else { Err(ed25519_dalek::SignatureError::new()) }
    }
}

fn stub_target_from_key(public_key: &[u8; 32], salt: Option<&[u8]>) -> Id {
    unsafe {
        H_KEY0 = public_key[0];
        H_SALT_LEN = match salt { Some(s) => s.len() + 1, None => 0 };
        Id::from(H_RESULT)
    }
}

fn stub_encode_signable(seq: i64, value: &[u8], salt: Option<&[u8]>) -> Box<[u8]> {
    unsafe {
        SIGNABLE_SEQ = seq;
        SIGNABLE_VLEN = value.len();
        SIGNABLE_SALT_LEN = match salt { Some(s) => s.len() + 1, None => 0 };
    }
    Box::new([0xE5])
}

#[kani::proof]
#[kani::unwind(70)]
#[kani::stub(ed25519_dalek::VerifyingKey::from_bytes, stub_vk_from_bytes)]
#[kani::stub(<ed25519_dalek::VerifyingKey as ed25519_dalek::Verifier<ed25519_dalek::Signature>>::verify, stub_verify)]
#[kani::stub(MutableItem::target_from_key, stub_target_from_key)]
#[kani::stub(encode_signable, stub_encode_signable)]
fn c03_from_dht_message_ok_iff_key_target_and_signature_check_out() {
    let key_len: usize = kani::any();
    kani::assume(key_len == 31 || key_len == 32 || key_len == 33);
    let sig_len: usize = kani::any();
    kani::assume(sig_len == 63 || sig_len == 64 || sig_len == 65);
    let kbuf: [u8; 33] = kani::any();
    let sbuf: [u8; 65] = kani::any();
    let target: [u8; 20] = kani::any();
    let h: [u8; 20] = kani::any();
    let point: bool = kani::any();
    let sig_ok: bool = kani::any();
    unsafe {
        KEY_IS_POINT = point;
        SIG_OK = sig_ok;
        H_RESULT = h;
    }
    let seq: i64 = kani::any();
    let v: Box<[u8]> = if kani::any() { Box::new([kani::any()]) } else { Box::new([]) };
    let vlen = v.len();
    let salt: Option<Box<[u8]>> = if kani::any() { Some(Box::new([kani::any(), 2])) } else { None };
    let salt_tag = match &salt { Some(s) => s.len() + 1, None => 0 };
    let r = MutableItem::from_dht_message(Id::from(target), &kbuf[..key_len], v, seq, &sbuf[..sig_len], salt);
    let want_ok = key_len == 32 && point && h == target && sig_len == 64 && sig_ok;
    assert!(r.is_ok() == want_ok, "C03/C02: from_dht_message is Ok <=> 32-byte key that is a curve point, target == H(k || salt), 64-byte signature that verifies");
    if let Ok(item) = &r {
        // the verdicts were obtained for THIS key, salt, seq, value and signature
        assert!(unsafe { H_KEY0 } == kbuf[0] && unsafe { H_SALT_LEN } == salt_tag, "target derived from the request's key and salt");
        assert!(unsafe { VERIFY_CALLS } == 1 && unsafe { VERIFY_SIG0 } == sbuf[0] && unsafe { VERIFY_KEY0 } == kbuf[0] && unsafe { VERIFY_MSG0 } == 0xE5,
            "signature verified under the request's key over the signable encoding");
        assert!(unsafe { SIGNABLE_SEQ } == seq && unsafe { SIGNABLE_VLEN } == vlen && unsafe { SIGNABLE_SALT_LEN } == salt_tag,
            "the signable encoding was built from the request's seq, value and salt");
        // the item carries the arguments unchanged
        assert!(item.target.as_bytes() == &target && item.key[..] == kbuf[..32] && item.seq == seq && item.signature[..] == sbuf[..64]
            && item.value.len() == vlen && (match &item.salt { Some(s) => s.len() + 1, None => 0 }) == salt_tag);
    }
    kani::cover!(r.is_ok());
    kani::cover!(!r.is_ok() && key_len == 32 && point && sig_len == 64 && sig_ok, "refused only because target != H(k || salt)");
    kani::cover!(!r.is_ok() && key_len == 32 && point && h == target && sig_len == 64, "refused only because the signature does not verify");
    core::mem::forget(r);
}
