// Kani harness module for src/common/mutable.rs (child `verif_kani`). Properties C03, C02.
//
// 1. `stub_from_dht_message`: the CONTRACT of MutableItem::from_dht_message made executable, used by
//    the harnesses of Server::handle_request (C03/C04) and Core::handle_response (C02):
//      Ok(item)  <=>  key is 32 bytes  &&  target == H(key || salt)  &&  sig is 64 bytes  &&  verify(..)
//      Ok(item)  ==>  item == { target, key, value: v, seq, signature, salt }  (the arguments, unchanged)
//    with H and verify replaced by ghost verdicts the calling harness chooses.
// 2. obligations that the REAL from_dht_message satisfies exactly that contract, down to the
//    dependency boundary (sha1_smol digest and ed25519-dalek verify are assumed: layer A).
use super::*;

pub(crate) static mut TARGET_MATCHES_KEY: bool = true; // ghost: target == SHA1(k || salt)
pub(crate) static mut SIG_OK: bool = true; // ghost: ed25519 verify(k, signable(seq, v, salt), sig)
pub(crate) static mut FDM_CALLS: u32 = 0;
pub(crate) static mut FDM_TARGET0: u8 = 0; // first byte of the target the caller passed

pub(crate) fn stub_from_dht_message(
    target: Id,
    key: &[u8],
    v: Box<[u8]>,
    seq: i64,
    signature: &[u8],
    salt: Option<Box<[u8]>>,
) -> Result<MutableItem, MutableError> {
    unsafe {
        FDM_CALLS += 1;
        FDM_TARGET0 = target.as_bytes()[0];
    }
    let key: [u8; 32] = match key.try_into() {
        Ok(k) => k,
        Err(_) => return Err(MutableError::InvalidMutablePublicKey),
    };
    if !unsafe { TARGET_MATCHES_KEY } {
        return Err(MutableError::InvalidMutablePublicKey);
    }
    let signature: [u8; 64] = match signature.try_into() {
        Ok(s) => s,
        Err(_) => return Err(MutableError::InvalidMutableSignature),
    };
    if !unsafe { SIG_OK } {
        return Err(MutableError::InvalidMutableSignature);
    }
    Ok(MutableItem { target, key, value: v, seq, signature, salt })
}

/// direct construction of a stored item (pre-states of the server harnesses)
pub(crate) fn item(target: Id, key: [u8; 32], seq: i64, value: Box<[u8]>, signature: [u8; 64], salt: Option<Box<[u8]>>) -> MutableItem {
    MutableItem { target, key, value, seq, signature, salt }
}

pub(crate) fn salt_of(i: &MutableItem) -> &Option<Box<[u8]>> {
    &i.salt
}
