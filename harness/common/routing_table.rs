// Kani harness module for src/common/routing_table.rs (child `verif_kani`).
// C12 (structural and Sybil-limit invariants, stale-head replacement), C14 kernel (a node heard
// from again is refreshed), C11 (closest() = first 20 of the table in secure-first/XOR order).
use super::*;
use crate::common::node::verif_kani::{node_aged, seen_just_now, stub_is_valid_for_ip};
use crate::common::NodeInner;
use std::net::SocketAddrV4;
use std::sync::Arc;

include!("/verif/harness/support.rs");

const STALE_MS: u64 = 15 * 60 * 1000;

/// A `Vec<Node>` whose buffer is a LOCAL ARRAY (Vec::from_raw_parts; never freed: owners are
/// `mem::forget`-ten, and no harness pushes beyond the array). CBMC folds the `ptr == end` test of a
/// slice iterator for stack memory but not for heap memory, where every loop over the Vec runs to
/// the unwinding bound (measured: RoutingTable::add 28 GB -> 0.4 GB, 21 s).
macro_rules! stack_nodes {
    ($slab:ident, $cap:expr, [$($n:expr),*]) => {{
        let mut len = 0usize;
        $(
            $slab[len].write($n);
            len += 1;
        )*
        let v: Vec<Node> = unsafe { Vec::from_raw_parts($slab.as_mut_ptr() as *mut Node, len, $cap) };
        v
    }};
}
macro_rules! slab {
    ($name:ident, $cap:expr) => {
        let mut $name: [core::mem::MaybeUninit<Node>; $cap] = unsafe { core::mem::MaybeUninit::uninit().assume_init() };
    };
}

fn idb(b0: u8, b1: u8, b19: u8) -> Id {
    let mut x = [0x55u8; 20];
    x[0] = b0;
    x[1] = b1;
    x[19] = b19;
    Id::from(x)
}

fn addr(ip3: u8, port: u16) -> SocketAddrV4 {
    SocketAddrV4::new(std::net::Ipv4Addr::new(10, 0, 0, ip3), port)
}

// =============================================================================================
// KBucket::add — the four-case step, at the real capacity (20)
// =============================================================================================

/// A bucket of `n` entries with distinct ids (byte 1 = index) and distinct IPs; the head (least
/// recently seen) has a symbolic age straddling 15 minutes, all others are fresh. One add of a node
/// whose id may or may not be one of the bucket's, from a symbolic address.
fn kbucket_add_case(n: usize) -> (bool, bool, bool, bool) {
    let head_age: u64 = kani::any();
    kani::assume(head_age <= 2_000_000);
    // (a real heap-backed bucket here, NOT the stack-backed buffers used by the table harnesses:
    // KBucket::add moves entries inside the buffer, and after a memmove inside a local array of
    // MaybeUninit<Node> CBMC no longer recognises the moved Arc pointers as equal to themselves — a
    // spurious failure that native playback does not reproduce. Measured, and reverted.)
    let mut b = KBucket::new();
    let mut i = 0usize;
    while i < n {
        // ids: byte 1 = i; insecure (parity of id[19]=0 xor ip3 = 2*i is even)
        b.nodes.push(node_aged(idb(0x80, i as u8, 0), addr((2 * i) as u8, 1000 + i as u16), if i == 0 { head_age } else { 1_000 }));
        i += 1;
    }
    let inc_b1: u8 = kani::any();
    if n > 2 {
        // at 19/20 entries the incoming id is the head's, a middle entry's, the tail's, or unknown
        // (a fully symbolic index into a 20-entry Vec<Arc<..>> exhausts 16 GB)
        kani::assume(inc_b1 == 0 || inc_b1 == 7 || inc_b1 as usize == n - 1 || inc_b1 == 200);
    }
    let inc_ip3: u8 = kani::any();
    let inc_b19: u8 = kani::any();
    let inc_port: u16 = kani::any();
    let incoming = node_aged(idb(0x80, inc_b1, inc_b19), addr(inc_ip3, inc_port), 0);
    let inc_secure = incoming.is_secure();
    let known = (inc_b1 as usize) < n && inc_b19 == 0;
    // if an entry with that id exists, it is entry number inc_b1
    let same_ip_as_existing = known && inc_ip3 == (2 * inc_b1 as usize) as u8;
    let head_stale = n > 0 && head_age > STALE_MS;

    // the old entries, by identity (Arc pointers): the bucket after the call must consist of old
    // entries (each at most once) plus possibly the incoming node
    let mut olds: [*const NodeInner; 21] = [core::ptr::null(); 21];
    let mut i = 0usize;
    while i < n {
        olds[i] = Arc::as_ptr(&b.nodes[i].0);
        i += 1;
    }
    let inc_ptr = Arc::as_ptr(&incoming.0);
    let added = b.add(incoming);

    let len = b.nodes.len();
    assert!(len <= MAX_BUCKET_SIZE_K, "C12: no bucket exceeds 20 entries");
    // ---- what the step must be (from the statement)
    let refresh = inc_secure || same_ip_as_existing; // every existing entry here is insecure
    let want_added = if known { refresh } else { n < MAX_BUCKET_SIZE_K || head_stale };
    assert!(added == want_added,
        "C12/C14: known id => refreshed iff incoming secure or same IP; unknown id => appended if room, else replaces the head iff the head is stale (> 15 min)");
    // the only entry that may disappear: the one carrying the incoming id (when refreshed), or the
    // STALE head of a FULL bucket
    let drop: usize = if known && added { inc_b1 as usize } else if !known && n == MAX_BUCKET_SIZE_K && head_stale { 0 } else { usize::MAX };
    let want_len = n - (if drop != usize::MAX { 1 } else { 0 }) + (if added { 1 } else { 0 });
    assert!(len == want_len);
    // the bucket is exactly: the old entries in their old order minus `drop`, then the incoming node
    let mut j = 0usize;
    while j <= n {
        if j < len {
            if added && j == len - 1 {
                assert!(Arc::as_ptr(&b.nodes[j].0) == inc_ptr, "C14: an accepted node sits at the tail (most recently seen) with its new last_seen");
            } else {
                let same = j < n && Arc::as_ptr(&b.nodes[j].0) == olds[j];
                let next = j + 1 < n && Arc::as_ptr(&b.nodes[j].0) == olds[j + 1];
                assert!(if j < drop { same } else { next },
                    "C12: adding never evicts, alters or reorders a fresh node; ids stay distinct (the entry with the incoming id is the one replaced)");
            }
        }
        j += 1;
    }
    core::mem::forget(b);
    (added, known, head_stale, inc_secure)
}

macro_rules! bucket_harness {
    ($name:ident, $n:expr, |$added:ident, $known:ident, $stale:ident| $covers:block) => {
        #[kani::proof]
        #[kani::unwind(23)]
        #[kani::stub(std::time::Instant::now, clock::mock_now)]
        #[kani::stub(std::time::Instant::elapsed, clock::mock_elapsed)]
        #[kani::stub(Id::is_valid_for_ip, stub_is_valid_for_ip)]
        fn $name() {
            let ($added, $known, $stale, _sec) = kbucket_add_case($n);
            $covers
        }
    };
}

bucket_harness!(c12_kbucket_add_on_empty_bucket, 0, |added, known, _stale| {
    kani::cover!(!known && added, "appended to an empty bucket");
});
bucket_harness!(c12_kbucket_add_on_bucket_of_2, 2, |added, known, _stale| {
    kani::cover!(known && added, "known id refreshed");
    kani::cover!(known && !added, "known id refused");
    kani::cover!(!known && added, "unknown id appended");
});
bucket_harness!(c12_kbucket_add_on_bucket_of_19, 19, |added, known, _stale| {
    kani::cover!(known && added, "known id refreshed");
    kani::cover!(known && !added, "known id refused");
    kani::cover!(!known && added, "unknown id appended (bucket now full)");
});
bucket_harness!(c12_kbucket_add_on_full_bucket_of_20, 20, |added, known, stale| {
    kani::cover!(!known && stale && added, "unknown id, stale head: replaced");
    kani::cover!(!known && !stale && !added, "unknown id, fresh head: refused");
    kani::cover!(known && added, "known id refreshed");
    kani::cover!(known && !added, "known id refused");
});

// =============================================================================================
// RoutingTable::{add, remove, reset_id, size, is_empty, nodes}
//
// Modular shape: RoutingTable::add is verified against the CONTRACT of KBucket::add (recording
// stub: which bucket, which node, an arbitrary verdict) — KBucket::add's own contract is discharged
// above, Node::already_exists' in common::node::verif_kani. reset_id is verified against a
// recording stub of RoutingTable::add. That these per-call contracts preserve the representation
// invariant of the statement for tables of ANY size and after ANY sequence of operations is the
// Verus lemma verus/c12_invariant.rs.
// =============================================================================================

static mut BADD_CALLS: u32 = 0;
// (raw pointers, never cast to integers: a pointer-to-integer cast makes CBMC encode the address
// of every object numerically — measured > 28 GB for one RoutingTable::add)
static mut BADD_BUCKET: *const KBucket = core::ptr::null();
static mut BADD_NODE: *const NodeInner = core::ptr::null();
static mut BADD_VERDICT: bool = true;

fn stub_bucket_add(b: &mut KBucket, incoming: Node) -> bool {
    unsafe {
        BADD_CALLS += 1;
        BADD_BUCKET = b as *const KBucket;
        BADD_NODE = Arc::as_ptr(&incoming.0);
        core::mem::forget(incoming);
        BADD_VERDICT
    }
}

fn place(t: &mut RoutingTable, n: Node) {
    let d = t.id.distance(n.id());
    t.buckets.entry(d).or_default().nodes.push(n);
}

/// table 00.. with A (insecure, 10.0.0.2, bucket 160) and B (secure, 10.0.0.5, bucket 159)
/// (fills a table in place: returning it by value is a byte-wise move after which CBMC no longer
/// treats the slot contents as constants)
fn fill_ab(t: &mut RoutingTable) {
    place(t, node_aged(idb(0x80, 1, 0), addr(2, 7000), 1_000));
    place(t, node_aged(idb(0x40, 1, 0), addr(5, 7000), 1_000));
}

/// contract stub for Node::already_exists (its contract — the per-IP rule — is discharged on its full
/// domain by common::node::verif_kani::c12_already_exists_is_the_per_ip_rule): an arbitrary verdict
/// per existing node, chosen by the harness through the port of the node that "clashes".
static mut CLASH_PORT: u16 = 0;
static mut CLASH_CALLS: u32 = 0;
fn stub_already_exists(_this: &Node, nodes: &[Node]) -> bool {
    unsafe {
        CLASH_CALLS += 1;
        let mut hit = false;
        let mut i = 0usize;
        while i < nodes.len() && i < 3 {
            hit = hit || nodes[i].address().port() == CLASH_PORT;
            i += 1;
        }
        hit
    }
}

/// One RoutingTable::add of a node with a CONCRETE id (b0, b1) on the table {A in bucket 160, B in
/// bucket 159}; which existing entry "clashes" (per the contract stub of already_exists) and the
/// bucket's verdict are symbolic. (A symbolic id makes the bucket key symbolic and the stand-in's
/// ordered insertion a case split over moved buckets: 10 GB.)
fn table_add_case(b0: u8, b1: u8) -> (bool, bool, u16) {
    let mut t = RoutingTable::new(idb(0, 0, 0));
    // A (port 7001) and C (port 7003) in bucket 160, B (port 7002) in bucket 159. The buckets' Vec<Node> buffers live
    // on the STACK (Vec::from_raw_parts over local arrays, never freed: the table is forgotten): CBMC
    // folds `ptr == end` for stack slices but not for heap ones, where every loop over the bucket
    // ran to the unwinding bound and the obligation exhausted 28 GB.
    let mut slab_a: [core::mem::MaybeUninit<Node>; 2] = [core::mem::MaybeUninit::uninit(), core::mem::MaybeUninit::uninit()];
    let mut slab_b: [core::mem::MaybeUninit<Node>; 2] = [core::mem::MaybeUninit::uninit(), core::mem::MaybeUninit::uninit()];
    slab_a[0].write(node_aged(idb(0x80, 1, 0), addr(2, 7001), 1_000));
    slab_a[1].write(node_aged(idb(0x80, 0, 1), addr(9, 7003), 1_000)); // C: a bucket-mate of A
    slab_b[0].write(node_aged(idb(0x40, 1, 0), addr(5, 7002), 1_000));
    t.buckets.insert(160, KBucket { nodes: unsafe { Vec::from_raw_parts(slab_a.as_mut_ptr() as *mut Node, 2, 2) } });
    t.buckets.insert(159, KBucket { nodes: unsafe { Vec::from_raw_parts(slab_b.as_mut_ptr() as *mut Node, 1, 2) } });
    let clash_port: u16 = kani::any();
    kani::assume(clash_port == 0 || clash_port == 7001 || clash_port == 7002 || clash_port == 7003);
    let verdict: bool = kani::any();
    unsafe {
        BADD_VERDICT = verdict;
        CLASH_PORT = clash_port;
    }
    let id = idb(b0, b1, 0);
    let node = node_aged(id, addr(kani::any(), 1), 0);
    let ptr = Arc::as_ptr(&node.0);
    let own = b0 == 0 && b1 == 0;
    let is_a = b0 == 0x80 && b1 == 1;
    let is_b = b0 == 0x40 && b1 == 1;
    // the per-IP rule is consulted for every OTHER entry: a clash with the node's own existing
    // entry does not count (that entry is refreshed or refused by its bucket)
    let clash = (clash_port == 7001 && !is_a) || (clash_port == 7002 && !is_b) || clash_port == 7003;
    let d = t.id.distance(&id);
    let r = t.add(node);
    let calls = unsafe { BADD_CALLS };
    if own {
        assert!(!r && calls == 0, "C12: the table never admits its own id");
    } else if clash {
        assert!(!r && calls == 0, "C12: per-IP limits: a node that clashes with another entry of the table is refused");
    } else {
        assert!(calls == 1 && r == verdict, "C12: otherwise the decision is the bucket's");
        assert!(unsafe { BADD_NODE } == ptr, "the node handed to the bucket is the incoming one");
        let bucket_addr: *const KBucket = match t.buckets.get(&d) { Some(b) => b as *const KBucket, None => core::ptr::null() };
        assert!(!bucket_addr.is_null() && bucket_addr == unsafe { BADD_BUCKET }, "C12: every entry goes to the bucket matching its distance to the table's id");
    }
    core::mem::forget(t);
    (own, clash, clash_port)
}

macro_rules! table_add_harness {
    ($name:ident, $b0:expr, $b1:expr, |$own:ident, $clash:ident, $port:ident| $covers:block) => {
        #[kani::proof]
        #[kani::unwind(23)]
        #[kani::stub(std::time::Instant::now, clock::mock_now)]
        #[kani::stub(std::time::Instant::elapsed, clock::mock_elapsed)]
        #[kani::stub(KBucket::add, stub_bucket_add)]
        #[kani::stub(Node::already_exists, stub_already_exists)]
        fn $name() {
            let ($own, $clash, $port) = table_add_case($b0, $b1);
            $covers
        }
    };
}
table_add_harness!(c12_table_add_refuses_its_own_id, 0, 0, |own, _clash, _port| {
    kani::cover!(own);
});
table_add_harness!(c12_table_add_of_a_known_node_reaches_its_bucket, 0x80, 1, |_own, clash, port| {
    kani::cover!(!clash && port == 7001, "a known node is not blocked by its own entry and reaches its bucket's refresh rule");
    kani::cover!(clash && port == 7002, "but is blocked by a clash with an entry of another bucket");
    kani::cover!(clash && port == 7003, "and by a clash with a bucket-mate");
});
table_add_harness!(c12_table_add_of_a_stranger_into_an_existing_bucket, 0x80, 0, |_own, clash, port| {
    kani::cover!(clash && port == 7001);
    kani::cover!(!clash);
});
table_add_harness!(c12_table_add_of_a_stranger_opens_the_bucket_at_its_distance, 0x20, 1, |_own, clash, _port| {
    kani::cover!(!clash, "a stranger at a new distance opens that bucket");
});

/// RoutingTable::remove(id) on a bucket {A, C}: the entry with that id goes, the other stays; an
/// unknown id changes nothing. (The id is concrete per harness: `Vec::retain` over heap nodes is
/// unrolled to the unwinding bound whatever the real length, and a symbolic id on top of that did
/// not finish symbolic execution in 900 s.)
fn table_remove_case(id: Id, member: bool) {
    let mut t = RoutingTable::new(idb(0, 0, 0));
    slab!(sa, 3);
    // A and C in bucket 160
    let nodes = stack_nodes!(sa, 3, [node_aged(idb(0x80, 1, 0), addr(2, 7001), 1_000), node_aged(idb(0x80, 0, 1), addr(9, 7003), 1_000)]);
    t.buckets.insert(160, KBucket { nodes });
    t.remove(&id);
    let (len, first) = match t.buckets.get(&160) {
        Some(b) => (b.nodes.len(), if b.nodes.len() > 0 { b.nodes[0].address().port() } else { 0 }),
        None => (0, 0),
    };
    if member {
        assert!(len == 1 && first == 7003, "C12: remove removes the id and nothing else");
    } else {
        assert!(len == 2 && first == 7001, "C12: removing an unknown id changes nothing");
    }
    assert!(t.size() == len, "size agrees");
    core::mem::forget(t);
}

#[kani::proof]
#[kani::unwind(23)]
#[kani::stub(std::time::Instant::now, clock::mock_now)]
#[kani::stub(std::time::Instant::elapsed, clock::mock_elapsed)]
fn c12_table_remove_removes_exactly_that_id() {
    table_remove_case(idb(0x80, 1, 0), true)
}

#[kani::proof]
#[kani::unwind(23)]
#[kani::stub(std::time::Instant::now, clock::mock_now)]
#[kani::stub(std::time::Instant::elapsed, clock::mock_elapsed)]
fn c12_table_remove_of_an_unknown_id_changes_nothing() {
    table_remove_case(idb(0x80, 1, 1), false)
}

static mut TADD_CALLS: u32 = 0;
static mut TADD_IDS: [u8; 4] = [0; 4];
static mut TADD_BUCKETS_EMPTY_AT_FIRST: bool = false;
static mut TADD_TABLE_ID0: u8 = 0xFF;
fn stub_table_add(t: &mut RoutingTable, node: Node) -> bool {
    unsafe {
        if TADD_CALLS == 0 {
            TADD_BUCKETS_EMPTY_AT_FIRST = t.buckets.is_empty();
            TADD_TABLE_ID0 = t.id.as_bytes()[0];
        }
        if TADD_CALLS < 4 {
            TADD_IDS[TADD_CALLS as usize] = node.id().as_bytes()[0];
        }
        TADD_CALLS += 1;
        core::mem::forget(node);
        true
    }
}

#[kani::proof]
#[kani::unwind(163)]
#[kani::stub(std::time::Instant::now, clock::mock_now)]
#[kani::stub(std::time::Instant::elapsed, clock::mock_elapsed)]
#[kani::stub(RoutingTable::add, stub_table_add)]
fn c12_reset_id_rebuilds_the_table_through_add() {
    let mut t = RoutingTable::new(idb(0, 0, 0));
    // (heap-backed: reset_id drops the old buckets, and a stack-backed buffer cannot be freed)
    fill_ab(&mut t);
    let nb: u8 = kani::any();
    let new_id = idb(nb, 3, 0);
    t.reset_id(new_id);
    assert!(t.id() == &new_id, "re-keying sets the new id");
    assert!(unsafe { TADD_CALLS } == 2 && unsafe { TADD_BUCKETS_EMPTY_AT_FIRST } && unsafe { TADD_TABLE_ID0 } == nb,
        "C12: re-keying empties the table and re-admits every old node through add() under the new id (so each is re-bucketed by its new distance, and a node carrying the new id is refused)");
    let ids = unsafe { TADD_IDS };
    assert!((ids[0] == 0x80 && ids[1] == 0x40) || (ids[0] == 0x40 && ids[1] == 0x80), "every old node is re-admitted exactly once");
    core::mem::forget(t);
}

/// size(), is_empty() and the iterator agree: on a table of 3 nodes in 2 buckets plus an empty
/// bucket, and again after every node was removed (empty buckets left behind). One node is optional.
/// (Everything else concrete: with five optional nodes the 160-step bucket scan of the iterator
/// exhausted 10 GB.)
#[kani::proof]
#[kani::unwind(163)]
#[kani::stub(std::time::Instant::now, clock::mock_now)]
#[kani::stub(std::time::Instant::elapsed, clock::mock_elapsed)]
fn c12_size_iteration_and_is_empty_agree() {
    let mut t = RoutingTable::new(idb(0, 0, 0));
    slab!(sa, 3);
    slab!(sb, 2);
    let na = stack_nodes!(sa, 3, [node_aged(idb(0x80, 1, 0), addr(2, 1), 1_000), node_aged(idb(0x80, 0, 1), addr(3, 1), 1_000)]);
    t.buckets.insert(160, KBucket { nodes: na });
    t.buckets.entry(7).or_default();
    let third: bool = kani::any();
    if third {
        let nb = stack_nodes!(sb, 2, [node_aged(idb(0x01, 1, 0), addr(4, 1), 1_000)]);
        t.buckets.insert(153, KBucket { nodes: nb });
    }
    let want = if third { 3 } else { 2 };
    assert!(t.size() == want, "C12: size counts every entry");
    assert!(!t.is_empty());
    let mut it = 0usize;
    for _ in t.nodes() {
        it += 1;
    }
    assert!(it == want, "C12: iteration yields exactly size() nodes");
    t.remove(&idb(0x80, 1, 0));
    t.remove(&idb(0x80, 0, 1));
    t.remove(&idb(0x01, 1, 0));
    assert!(t.size() == 0 && t.is_empty(), "C12: is_empty <=> size == 0, also with empty buckets left behind");
    let mut it2 = 0usize;
    for _ in t.nodes() {
        it2 += 1;
    }
    assert!(it2 == 0);
    kani::cover!(third);
    core::mem::forget(t);
}

/// C14 kernel: re-adding a known node from the same IP refreshes its last_seen — through the real
/// RoutingTable::add, Node::already_exists and KBucket::add (the table holds just that node: with a
/// second node the nested scans did not finish in 20 minutes)
#[kani::proof]
#[kani::unwind(23)]
#[kani::stub(std::time::Instant::now, clock::mock_now)]
#[kani::stub(std::time::Instant::elapsed, clock::mock_elapsed)]
#[kani::stub(Id::is_valid_for_ip, stub_is_valid_for_ip)]
fn c14_readding_a_known_node_refreshes_last_seen() {
    let mut t = RoutingTable::new(idb(0, 0, 0));
    let age: u64 = kani::any();
    kani::assume(age <= 2_000_000);
    let secure: bool = kani::any(); // parity of the last octet decides the BEP42 class under the stand-in
    let ip3: u8 = if secure { 3 } else { 2 };
    slab!(sa, 3);
    let na = stack_nodes!(sa, 3, [node_aged(idb(0x80, 1, 0), addr(ip3, 7000), age)]);
    t.buckets.insert(160, KBucket { nodes: na });
    let again = Node::new(idb(0x80, 1, 0), addr(ip3, 7001));
    let added = t.add(again);
    assert!(added, "C14: a node that answers again (same id, same IP) is accepted again, not rejected by its own entry");
    match t.buckets.get(&160) {
        Some(b) => {
            assert!(b.nodes.len() == 1);
            assert!(seen_just_now(&b.nodes[0]), "C14: its last_seen is refreshed, so it is not stale for another 15 minutes");
            assert!(b.nodes[0].address().port() == 7001, "and its port is updated");
        }
        None => assert!(false),
    }
    kani::cover!(age > STALE_MS && secure);
    kani::cover!(age > STALE_MS && !secure);
    core::mem::forget(t);
}

// ---- helpers for harnesses of other modules (the statistics fields are private) ---------------
pub(crate) fn stats(t: &RoutingTable) -> (usize, f64, usize, f64, usize) {
    (t.dht_size_estimates_count, t.dht_size_estimates_sum, t.responders_samples_count, t.responders_size_estimates_sum, t.responders_subnets_sum)
}
pub(crate) fn set_stats(t: &mut RoutingTable, s: (usize, f64, usize, f64, usize)) {
    t.dht_size_estimates_count = s.0;
    t.dht_size_estimates_sum = s.1;
    t.responders_samples_count = s.2;
    t.responders_size_estimates_sum = s.3;
    t.responders_subnets_sum = s.4;
}
pub(crate) fn place_pub(t: &mut RoutingTable, n: Node) {
    place(t, n)
}

/// inserts a (stack-backed, see `stack_nodes!`) bucket holding `nodes` at the distance of its first node
pub(crate) fn insert_bucket(t: &mut RoutingTable, nodes: Vec<Node>) {
    let d = t.id.distance(nodes[0].id());
    t.buckets.insert(d, KBucket { nodes });
}

/// increments and decrements of the statistics are exact inverses and never underflow when paired
#[kani::proof]
fn c20_increment_then_decrement_restores_the_statistics() {
    let mut t = RoutingTable::new(idb(0, 0, 0));
    let c0: usize = kani::any();
    let r0: usize = kani::any();
    let sn0: usize = kani::any();
    kani::assume(c0 < 100_000 && r0 < 100_000 && sn0 < 10_000_000);
    let (a, b): (u16, u16) = (kani::any(), kani::any());
    set_stats(&mut t, (c0, a as f64, r0, b as f64, sn0));
    let (d, r, s): (u16, u16, u8) = (kani::any(), kani::any(), kani::any());
    t.increment_responders_stats(d as f64, r as f64, s);
    assert!(stats(&t) == (c0 + 1, a as f64 + d as f64, r0 + 1, b as f64 + r as f64, sn0 + s as usize));
    t.decrement_responders_stats(d as f64, r as f64, s);
    assert!(stats(&t) == (c0, a as f64, r0, b as f64, sn0), "C20: decrement_responders_stats undoes increment_responders_stats");
    t.increment_dht_size_estimate(d as f64);
    assert!(stats(&t) == (c0 + 1, a as f64 + d as f64, r0, b as f64, sn0));
    t.decrement_dht_size_estimate(d as f64);
    assert!(stats(&t) == (c0, a as f64, r0, b as f64, sn0), "C20: decrement_dht_size_estimate undoes increment_dht_size_estimate");
}

/// size() and is_empty() agree (quick-tier part of c12_size_iteration_and_is_empty_agree: the
/// 160-step bucket scan of the iterator needs > 10 GB and runs in the thorough tier)
#[kani::proof]
#[kani::unwind(23)]
#[kani::stub(std::time::Instant::now, clock::mock_now)]
#[kani::stub(std::time::Instant::elapsed, clock::mock_elapsed)]
fn c12_size_and_is_empty_agree() {
    let mut t = RoutingTable::new(idb(0, 0, 0));
    assert!(t.size() == 0 && t.is_empty());
    t.buckets.entry(7).or_default(); // an empty bucket, as removals leave behind
    assert!(t.size() == 0 && t.is_empty(), "C12: a table whose buckets are all empty is empty");
    place(&mut t, node_aged(idb(0x80, 1, 0), addr(2, 1), 1_000));
    let second: bool = kani::any();
    if second {
        place(&mut t, node_aged(idb(0x01, 1, 0), addr(4, 1), 1_000));
    }
    assert!(t.size() == if second { 2 } else { 1 } && !t.is_empty(), "C12: size counts every entry; is_empty <=> size == 0");
    core::mem::forget(t);
}

/// C20: re-keying the table (after the public address was confirmed) must not touch the lookup
/// statistics: they mirror Core::cached_iterative_queries, which re-keying does not change.
/// (Empty table: the 160-step bucket scan is then cheap; that the nodes are re-admitted is
/// c12_reset_id_rebuilds_the_table_through_add.)
#[kani::proof]
#[kani::unwind(163)]
#[kani::stub(std::time::Instant::now, clock::mock_now)]
#[kani::stub(std::time::Instant::elapsed, clock::mock_elapsed)]
fn c20_reset_id_keeps_the_statistics() {
    let mut t = RoutingTable::new(idb(0, 0, 0));
    let (c0, r0, sn0): (usize, usize, usize) = (kani::any(), kani::any(), kani::any());
    let (a, b): (u16, u16) = (kani::any(), kani::any());
    set_stats(&mut t, (c0, a as f64, r0, b as f64, sn0));
    t.reset_id(idb(kani::any(), 3, 0));
    assert!(stats(&t) == (c0, a as f64, r0, b as f64, sn0), "C20: the statistics still equal the aggregate over the cached lookups after the table was re-keyed");
    assert!(t.size() == 0);
    core::mem::forget(t);
}

// =============================================================================================
// C11: RoutingTable::closest offers EVERY node of the table to the accumulator (whose order and
// per-IP rule are C11's other obligations) — also when the target's own bucket is full
// =============================================================================================
static mut ACC_CALLS: u32 = 0;
static mut ACC_OTHER_BUCKET_SEEN: bool = false;
fn stub_acc_add(_c: &mut ClosestNodes, node: Node) {
    unsafe {
        ACC_CALLS += 1;
        if node.id().as_bytes()[0] == 0x40 {
            ACC_OTHER_BUCKET_SEEN = true;
        }
    }
    core::mem::forget(node);
}

#[kani::proof]
#[kani::unwind(23)]
#[kani::stub(std::time::Instant::now, clock::mock_now)]
#[kani::stub(std::time::Instant::elapsed, clock::mock_elapsed)]
#[kani::stub(ClosestNodes::add, stub_acc_add)]
fn c11_closest_considers_every_node_of_the_table() {
    let mut t = RoutingTable::new(idb(0, 0, 0));
    slab!(full, 20);
    slab!(other, 2);
    let mut i = 0usize;
    while i < 20 {
        full[i].write(node_aged(idb(0x80, i as u8, 0), addr(i as u8, 7000), 1_000));
        i += 1;
    }
    t.buckets.insert(160, KBucket { nodes: unsafe { Vec::from_raw_parts(full.as_mut_ptr() as *mut Node, 20, 20) } });
    let nb = stack_nodes!(other, 2, [node_aged(idb(0x40, 1, 0), addr(99, 7000), 1_000)]);
    t.buckets.insert(159, KBucket { nodes: nb });
    // a target that falls into the FULL bucket, and one that falls into the other bucket
    let target = if kani::any() { idb(0x80, 5, 1) } else { idb(0x40, 7, 0) };
    let r = t.closest(target);
    assert!(unsafe { ACC_CALLS } == 21 && unsafe { ACC_OTHER_BUCKET_SEEN },
        "C11: the closest nodes are selected among ALL nodes of the table (a node in another bucket may be closer than members of the target's own bucket)");
    assert!(r.len() <= MAX_BUCKET_SIZE_K, "C11: at most 20 nodes are returned");
    core::mem::forget(r);
    core::mem::forget(t);
}


// =============================================================================================
// C12/C14: reset_id against the contracts of to_owned_nodes ("all nodes of the table") and add:
// the table switches to the new id FIRST, is emptied, and every old node is re-admitted through
// add() (so it is re-bucketed by its distance to the NEW id and vetted again)
// =============================================================================================
fn stub_to_owned_nodes(_t: &RoutingTable) -> Vec<Node> {
    // the table's nodes, as a fresh heap Vec (reset_id consumes and frees it)
    vec![node_aged(idb(0x80, 1, 0), addr(2, 7000), 1_000), node_aged(idb(0x40, 1, 0), addr(5, 7000), 1_000)]
}

#[kani::proof]
#[kani::unwind(23)]
#[kani::stub(std::time::Instant::now, clock::mock_now)]
#[kani::stub(std::time::Instant::elapsed, clock::mock_elapsed)]
#[kani::stub(RoutingTable::to_owned_nodes, stub_to_owned_nodes)]
#[kani::stub(RoutingTable::add, stub_table_add)]
fn c12_reset_id_switches_the_id_first_and_readmits_every_node_through_add() {
    let mut t = RoutingTable::new(idb(0, 0, 0));
    let nb: u8 = kani::any();
    kani::assume(nb != 0);
    set_stats(&mut t, (3, 30.0, 2, 20.0, 9));
    t.reset_id(idb(nb, 3, 0));
    assert!(t.id() == &idb(nb, 3, 0), "re-keying sets the new id");
    assert!(unsafe { TADD_CALLS } == 2, "C12: every old node is re-admitted through add() (re-bucketed and vetted), exactly once");
    assert!(unsafe { TADD_TABLE_ID0 } == nb && unsafe { TADD_BUCKETS_EMPTY_AT_FIRST }, "C12/C14: the table already carries the NEW id, and is empty, when the first node is re-admitted");
    let ids = unsafe { TADD_IDS };
    assert!(ids[0] == 0x80 && ids[1] == 0x40);
    assert!(stats(&t) == (3, 30.0, 2, 20.0, 9), "C20: the statistics survive re-keying");
    core::mem::forget(t);
}
