// Kani harness module for src/common/routing_table.rs (child `verif_kani`).
// C12 (structural and Sybil-limit invariants, stale-head replacement), C14 kernel (a node heard
// from again is refreshed), C11 (closest() = first 20 of the table in secure-first/XOR order).
use super::*;
use crate::common::node::verif_kani::{last_seen_age_ms, node_aged, stub_is_valid_for_ip};
use crate::common::NodeInner;
use std::net::SocketAddrV4;
use std::sync::Arc;

include!("/verif/harness/support.rs");

const STALE_MS: u64 = 15 * 60 * 1000;

fn idb(b0: u8, b1: u8, b19: u8) -> Id {
    let mut x = [0x55u8; 20];
    x[0] = b0;
    x[1] = b1;
    x[19] = b19;
    Id::from(x)
}

fn addr(ip3: u8, port: u16) -> SocketAddrV4 {
    SocketAddrV4::new(std::net::Ipv4Addr::new(10, 0, 0, ip3), port)
}

// =============================================================================================
// KBucket::add — the four-case step, at the real capacity (20)
// =============================================================================================

/// A bucket of `n` entries with distinct ids (byte 1 = index) and distinct IPs; the head (least
/// recently seen) has a symbolic age straddling 15 minutes, all others are fresh. One add of a node
/// whose id may or may not be one of the bucket's, from a symbolic address.
fn kbucket_add_case(n: usize) -> (bool, bool, bool, bool) {
    let head_age: u64 = kani::any();
    kani::assume(head_age <= 2_000_000);
    let mut b = KBucket::new();
    let mut i = 0usize;
    while i < n {
        // ids: byte 1 = i; insecure (parity of id[19]=0 xor ip3 = 2*i is even)
        b.nodes.push(node_aged(idb(0x80, i as u8, 0), addr((2 * i) as u8, 1000 + i as u16), if i == 0 { head_age } else { 1_000 }));
        i += 1;
    }
    let inc_b1: u8 = kani::any();
    if n > 2 {
        // at 19/20 entries the incoming id is the head's, a middle entry's, the tail's, or unknown
        // (a fully symbolic index into a 20-entry Vec<Arc<..>> exhausts 16 GB)
        kani::assume(inc_b1 == 0 || inc_b1 == 7 || inc_b1 as usize == n - 1 || inc_b1 == 200);
    }
    let inc_ip3: u8 = kani::any();
    let inc_b19: u8 = kani::any();
    let inc_port: u16 = kani::any();
    let incoming = node_aged(idb(0x80, inc_b1, inc_b19), addr(inc_ip3, inc_port), 0);
    let inc_secure = incoming.is_secure();
    let known = (inc_b1 as usize) < n && inc_b19 == 0;
    // if an entry with that id exists, it is entry number inc_b1
    let same_ip_as_existing = known && inc_ip3 == (2 * inc_b1 as usize) as u8;
    let head_stale = n > 0 && head_age > STALE_MS;

    // the old entries, by identity (Arc pointers): the bucket after the call must consist of old
    // entries (each at most once) plus possibly the incoming node
    let mut olds: [*const NodeInner; 21] = [core::ptr::null(); 21];
    let mut i = 0usize;
    while i < n {
        olds[i] = Arc::as_ptr(&b.nodes[i].0);
        i += 1;
    }
    let inc_ptr = Arc::as_ptr(&incoming.0);
    let added = b.add(incoming);

    let len = b.nodes.len();
    assert!(len <= MAX_BUCKET_SIZE_K, "C12: no bucket exceeds 20 entries");
    // ---- what the step must be (from the statement)
    let refresh = inc_secure || same_ip_as_existing; // every existing entry here is insecure
    let want_added = if known { refresh } else { n < MAX_BUCKET_SIZE_K || head_stale };
    assert!(added == want_added,
        "C12/C14: known id => refreshed iff incoming secure or same IP; unknown id => appended if room, else replaces the head iff the head is stale (> 15 min)");
    // the only entry that may disappear: the one carrying the incoming id (when refreshed), or the
    // STALE head of a FULL bucket
    let drop: usize = if known && added { inc_b1 as usize } else if !known && n == MAX_BUCKET_SIZE_K && head_stale { 0 } else { usize::MAX };
    let want_len = n - (if drop != usize::MAX { 1 } else { 0 }) + (if added { 1 } else { 0 });
    assert!(len == want_len);
    // the bucket is exactly: the old entries in their old order minus `drop`, then the incoming node
    let mut j = 0usize;
    while j <= n {
        if j < len {
            if added && j == len - 1 {
                assert!(Arc::as_ptr(&b.nodes[j].0) == inc_ptr, "C14: an accepted node sits at the tail (most recently seen) with its new last_seen");
            } else {
                let same = j < n && Arc::as_ptr(&b.nodes[j].0) == olds[j];
                let next = j + 1 < n && Arc::as_ptr(&b.nodes[j].0) == olds[j + 1];
                assert!(if j < drop { same } else { next },
                    "C12: adding never evicts, alters or reorders a fresh node; ids stay distinct (the entry with the incoming id is the one replaced)");
            }
        }
        j += 1;
    }
    core::mem::forget(b);
    (added, known, head_stale, inc_secure)
}

macro_rules! bucket_harness {
    ($name:ident, $n:expr, |$added:ident, $known:ident, $stale:ident| $covers:block) => {
        #[kani::proof]
        #[kani::unwind(23)]
        #[kani::stub(std::time::Instant::now, clock::mock_now)]
        #[kani::stub(std::time::Instant::elapsed, clock::mock_elapsed)]
        #[kani::stub(Id::is_valid_for_ip, stub_is_valid_for_ip)]
        fn $name() {
            let ($added, $known, $stale, _sec) = kbucket_add_case($n);
            $covers
        }
    };
}

bucket_harness!(c12_kbucket_add_on_empty_bucket, 0, |added, known, _stale| {
    kani::cover!(!known && added, "appended to an empty bucket");
});
bucket_harness!(c12_kbucket_add_on_bucket_of_2, 2, |added, known, _stale| {
    kani::cover!(known && added, "known id refreshed");
    kani::cover!(known && !added, "known id refused");
    kani::cover!(!known && added, "unknown id appended");
});
bucket_harness!(c12_kbucket_add_on_bucket_of_19, 19, |added, known, _stale| {
    kani::cover!(known && added, "known id refreshed");
    kani::cover!(known && !added, "known id refused");
    kani::cover!(!known && added, "unknown id appended (bucket now full)");
});
bucket_harness!(c12_kbucket_add_on_full_bucket_of_20, 20, |added, known, stale| {
    kani::cover!(!known && stale && added, "unknown id, stale head: replaced");
    kani::cover!(!known && !stale && !added, "unknown id, fresh head: refused");
    kani::cover!(known && added, "known id refreshed");
    kani::cover!(known && !added, "known id refused");
});

// =============================================================================================
// RoutingTable::{add, remove, reset_id}: one call on an arbitrary well-formed table of <= 2 nodes
// =============================================================================================

/// the representation invariant of the statement
fn wf(t: &RoutingTable) -> bool {
    let mut ok = true;
    let mut count = 0usize;
    for (d, bucket) in t.buckets.iter() {
        ok = ok && bucket.nodes.len() <= MAX_BUCKET_SIZE_K;
        for n in bucket.nodes.iter() {
            count += 1;
            // no own id, and every entry sits in the bucket matching its distance
            ok = ok && n.id() != t.id() && t.id().distance(n.id()) == *d;
            // ids pairwise distinct, per-IP limits (against every other entry of the table)
            let mut same_id = 0usize;
            for (_, b2) in t.buckets.iter() {
                for m in b2.nodes.iter() {
                    if m.id() == n.id() {
                        same_id += 1;
                    } else if m.address().ip() == n.address().ip() {
                        // two different entries on one IP: not both insecure; if both secure, different 21-bit prefixes
                        ok = ok && (m.is_secure() || n.is_secure());
                        ok = ok && !(m.is_secure() && n.is_secure() && m.id().first_21_bits() == n.id().first_21_bits());
                    }
                }
            }
            ok = ok && same_id == 1;
        }
    }
    // size, iteration and is_empty agree
    ok = ok && t.size() == count && t.is_empty() == (count == 0);
    let mut it = 0usize;
    for _ in t.nodes() {
        it += 1;
    }
    ok && it == count
}

fn contains(t: &RoutingTable, id: &Id) -> bool {
    let mut found = false;
    for (_, b) in t.buckets.iter() {
        for n in b.nodes.iter() {
            found = found || n.id() == id;
        }
    }
    found
}

struct Sym {
    b0: u8,
    b1: u8,
    b19: u8,
    ip3: u8,
}
fn sym() -> Sym {
    let s = Sym { b0: kani::any(), b1: kani::any(), b19: kani::any(), ip3: kani::any() };
    // keep the universe small but rich: two first bytes, two second bytes, two IPs, both parities
    kani::assume((s.b0 == 0x80 || s.b0 == 0x40) && s.b1 < 2 && s.b19 < 2 && s.ip3 < 2);
    s
}
fn node_of(s: &Sym, age: u64) -> Node {
    node_aged(idb(s.b0, s.b1, s.b19), addr(s.ip3, 7000), age)
}

/// a table with id 00.. holding 0..=2 arbitrary nodes placed in their buckets; assumed well formed
fn small_table() -> (RoutingTable, usize) {
    let mut t = RoutingTable::new(idb(0, 0, 0));
    let n: usize = kani::any();
    kani::assume(n <= 2);
    if n >= 1 {
        let s = sym();
        let node = node_of(&s, 1_000);
        let d = t.id.distance(node.id());
        t.buckets.entry(d).or_default().nodes.push(node);
    }
    if n >= 2 {
        let s = sym();
        let node = node_of(&s, 1_000);
        let d = t.id.distance(node.id());
        t.buckets.entry(d).or_default().nodes.push(node);
    }
    kani::assume(wf(&t));
    (t, n)
}

#[kani::proof]
#[kani::unwind(23)]
#[kani::stub(std::time::Instant::now, clock::mock_now)]
#[kani::stub(std::time::Instant::elapsed, clock::mock_elapsed)]
#[kani::stub(Id::is_valid_for_ip, stub_is_valid_for_ip)]
fn c12_table_add_preserves_the_invariant() {
    let (mut t, n) = small_table();
    let s = sym();
    let own: bool = kani::any();
    let node = if own { node_aged(*t.id(), addr(s.ip3, 7000), 0) } else { node_of(&s, 0) };
    let id = *node.id();
    let was_there = contains(&t, &id);
    let added = t.add(node.clone());
    assert!(wf(&t), "C12: add preserves the routing-table invariant");
    assert!(!own || !added, "C12: the table never contains its own id");
    if added {
        assert!(contains(&t, &id));
        assert!(t.size() == n + if was_there { 0 } else { 1 });
    } else {
        assert!(t.size() == n, "a refused add changes nothing");
    }
    kani::cover!(added && was_there, "known node refreshed through the table");
    kani::cover!(added && !was_there && n == 2);
    kani::cover!(!added && !own && !was_there, "refused by the per-IP rule");
    kani::cover!(!added && was_there);
    core::mem::forget(t);
}

/// C14 kernel: re-adding a known node from the same address refreshes its last_seen
#[kani::proof]
#[kani::unwind(23)]
#[kani::stub(std::time::Instant::now, clock::mock_now)]
#[kani::stub(std::time::Instant::elapsed, clock::mock_elapsed)]
#[kani::stub(Id::is_valid_for_ip, stub_is_valid_for_ip)]
fn c14_readding_a_known_node_refreshes_last_seen() {
    let mut t = RoutingTable::new(idb(0, 0, 0));
    let s = sym();
    let age: u64 = kani::any();
    kani::assume(age <= 2_000_000);
    let old = node_of(&s, age);
    let d = t.id.distance(old.id());
    t.buckets.entry(d).or_default().nodes.push(old);
    // possibly another, unrelated node
    if kani::any() {
        let o = node_aged(idb(0x20, 9, 0), addr(9, 9), 1_000);
        let d = t.id.distance(o.id());
        t.buckets.entry(d).or_default().nodes.push(o);
    }
    let again = Node::new(idb(s.b0, s.b1, s.b19), addr(s.ip3, kani::any()));
    let added = t.add(again.clone());
    assert!(added, "C14: a node that answers again (same id, same IP) is accepted again");
    let mut seen_age = u64::MAX;
    for n in t.nodes() {
        if n.id() == again.id() {
            seen_age = last_seen_age_ms(&n);
            assert!(n.address() == again.address(), "the port is updated as well");
        }
    }
    assert!(seen_age == 0, "C14: its last_seen is refreshed, so it is not stale for another 15 minutes");
    assert!(wf(&t));
    kani::cover!(age > STALE_MS);
    core::mem::forget(t);
}

#[kani::proof]
#[kani::unwind(23)]
#[kani::stub(std::time::Instant::now, clock::mock_now)]
#[kani::stub(std::time::Instant::elapsed, clock::mock_elapsed)]
#[kani::stub(Id::is_valid_for_ip, stub_is_valid_for_ip)]
fn c12_table_remove_preserves_the_invariant() {
    let (mut t, n) = small_table();
    let s = sym();
    let id = idb(s.b0, s.b1, s.b19);
    let was_there = contains(&t, &id);
    t.remove(&id);
    assert!(wf(&t), "C12: remove preserves the routing-table invariant");
    assert!(!contains(&t, &id), "remove removes");
    assert!(t.size() == n - if was_there { 1 } else { 0 }, "and removes nothing else");
    kani::cover!(was_there && n == 2);
    kani::cover!(!was_there && n == 2);
    core::mem::forget(t);
}

#[kani::proof]
#[kani::unwind(23)]
#[kani::stub(std::time::Instant::now, clock::mock_now)]
#[kani::stub(std::time::Instant::elapsed, clock::mock_elapsed)]
#[kani::stub(Id::is_valid_for_ip, stub_is_valid_for_ip)]
fn c12_table_reset_id_preserves_the_invariant() {
    let (mut t, n) = small_table();
    let s = sym();
    let new_id = idb(s.b0, s.b1, s.b19);
    let had_new_id = contains(&t, &new_id);
    t.reset_id(new_id);
    assert!(t.id() == &new_id);
    assert!(wf(&t), "C12: re-keying preserves the invariant (every entry re-bucketed by its distance to the new id, the new own id dropped)");
    assert!(t.size() <= n - if had_new_id { 1 } else { 0 }, "re-keying adds nothing and drops a node that carries the new own id");
    kani::cover!(had_new_id);
    kani::cover!(!had_new_id && n == 2);
    core::mem::forget(t);
}
