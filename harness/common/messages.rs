// Kani harness module for src/common/messages.rs (child `verif_kani` of `common::messages`).
// C10 (typed <-> wire-mirror round trip; compact codecs are exact inverses) and C05 (no value of
// the wire-mirror type makes the decoder panic). The bencode layer itself (serde_bencode + serde
// derive on messages/internal.rs) is assumed: layer A.
use super::*;

include!("/verif/harness/support.rs");

fn idb(b: u8) -> Id {
    let mut x = [7u8; ID_SIZE];
    x[0] = b;
    Id::from(x)
}

// =============================================================================================
// compact codecs (cheap, full domain)
// =============================================================================================

/// sockaddr: encode then decode is the identity for every address; every length other than 6 is an
/// error, never a panic
#[kani::proof]
#[kani::unwind(22)]
fn c10_sockaddr_codec_is_an_exact_inverse() {
    let a = SocketAddrV4::new(kani::any::<u32>().into(), kani::any());
    let b = sockaddr_to_bytes(&a);
    assert!(b[0..4] == a.ip().octets() && b[4] == (a.port() >> 8) as u8 && b[5] == a.port() as u8, "C10: compact peer format: 4 bytes ip, 2 bytes port, big-endian");
    match bytes_to_sockaddr(b) {
        Ok(back) => assert!(back == a, "C10: decode(encode(addr)) == addr"),
        Err(_) => assert!(false),
    }
    let buf: [u8; 20] = kani::any();
    let len: usize = kani::any();
    kani::assume(len <= 20);
    let r = bytes_to_sockaddr(&buf[..len]);
    assert!(r.is_ok() == (len == 6), "C05/C10: any other length is a decode error, not a panic");
    core::mem::forget(r);
}

/// signed peer record: exact inverse on all 104 bytes; any other length is an error
#[kani::proof]
#[kani::unwind(106)]
fn c10_signed_peer_codec_is_an_exact_inverse() {
    let p: ([u8; 32], u64, [u8; 64]) = (kani::any(), kani::any(), kani::any());
    let b = signed_peer_to_bytes(&p);
    match bytes_to_signed_peer(b) {
        Ok(back) => assert!(back.0 == p.0 && back.1 == p.1 && back.2 == p.2, "C10: decode(encode(record)) == record"),
        Err(_) => assert!(false),
    }
    let raw: [u8; 104] = kani::any();
    match bytes_to_signed_peer(raw) {
        Ok(rec) => assert!(signed_peer_to_bytes(&rec) == raw, "C10: encode(decode(bytes)) == bytes"),
        Err(_) => assert!(false),
    }
}

#[kani::proof]
#[kani::unwind(4)]
fn c05_signed_peer_record_of_any_other_length_is_an_error() {
    let buf = [0u8; 209];
    let len: usize = kani::any();
    kani::assume(len == 0 || len == 1 || len == 103 || len == 105 || len == 208 || len == 209);
    let r = bytes_to_signed_peer(&buf[..len]);
    assert!(r.is_err(), "C05/C10: a compact signed-peer record is exactly 104 bytes; anything else is a decode error, never a panic or a truncation");
    core::mem::forget(r);
}

/// compact node lists: 2 nodes round trip as (id, address), 26 bytes each (the count is concrete:
/// a symbolic length makes the decoder's loop run to the unwinding bound)
#[kani::proof]
#[kani::unwind(30)]
#[kani::stub(std::time::Instant::now, clock::mock_now)]
fn c10_nodes4_codec_round_trips() {
    let ids: [[u8; 20]; 2] = kani::any();
    let a0 = SocketAddrV4::new(kani::any::<u32>().into(), kani::any());
    let a1 = SocketAddrV4::new(kani::any::<u32>().into(), kani::any());
    let nodes: Vec<Node> = vec![Node::new(Id::from(ids[0]), a0), Node::new(Id::from(ids[1]), a1)];
    let bytes = nodes4_to_bytes(&nodes);
    assert!(bytes.len() == 52, "C10: compact node info is 26 bytes per node");
    assert!(bytes[0..20] == ids[0] && bytes[20..24] == a0.ip().octets() && bytes[26..46] == ids[1], "C10: id (20) || ip (4) || port (2), node after node");
    match bytes_to_nodes4(&bytes) {
        Ok(back) => {
            assert!(back.len() == 2);
            assert!(back[0].id().as_bytes() == &ids[0] && back[0].address() == a0);
            assert!(back[1].id().as_bytes() == &ids[1] && back[1].address() == a1);
            core::mem::forget(back);
        }
        Err(_) => assert!(false, "C10: decode(encode(nodes)) must succeed"),
    }
    let empty = nodes4_to_bytes(&[]);
    assert!(empty.len() == 0);
    core::mem::forget(nodes);
}

fn node_list_len_case(len: usize) {
    let buf: [u8; 53] = kani::any();
    let r = bytes_to_nodes4(&buf[..len]);
    assert!(r.is_ok() == (len % 26 == 0), "C05/C10: a node list whose length is not a multiple of 26 is a decode error, never a panic");
    core::mem::forget(r);
}

#[kani::proof]
#[kani::unwind(30)]
#[kani::stub(std::time::Instant::now, clock::mock_now)]
fn c05_node_list_of_any_length_decodes_or_errors() {
    node_list_len_case(0);
    node_list_len_case(1);
    node_list_len_case(25);
    node_list_len_case(26);
    node_list_len_case(27);
    node_list_len_case(52);
    node_list_len_case(53);
}

// =============================================================================================
// typed message <-> wire mirror (internal::DHTMessage)
// =============================================================================================

fn roundtrip(m: Message) -> Result<Message, DecodeMessageError> {
    Message::from_serde_message(m.into_serde_message())
}

fn opt_box(present: bool, b0: u8) -> Option<Box<[u8]>> {
    if present { Some(Box::new([b0, 1, 2])) } else { None }
}

/// every request kind (6 + 4 put kinds), every optional field present or absent, ids/keys/signatures
/// symbolic in their first byte, seq / cas / t / port over their full ranges
fn request_round_trip_case(kind: u8) {
    let t0: u8 = kani::any();
    let target = idb(t0);
    let seq: i64 = kani::any();
    let oseq: Option<i64> = kani::any();
    let cas: Option<i64> = kani::any();
    let port: u16 = kani::any();
    let implied: Option<bool> = kani::any();
    let tstamp: u64 = kani::any();
    let has_salt: bool = kani::any();
    let k0: u8 = kani::any();
    let mut k = [0x11u8; 32];
    k[0] = k0;
    let mut sig = [0x22u8; 64];
    sig[63] = k0;
    let tok0: u8 = kani::any();
    let put = |p: PutRequestSpecific| RequestTypeSpecific::Put(PutRequest { token: Box::new([tok0, 9]), put_request_type: p });
    let rt = match kind {
        0 => RequestTypeSpecific::Ping,
        1 => RequestTypeSpecific::FindNode(FindNodeRequestArguments { target }),
        2 => RequestTypeSpecific::GetPeers(GetPeersRequestArguments { info_hash: target }),
        3 => RequestTypeSpecific::GetSignedPeers(GetPeersRequestArguments { info_hash: target }),
        4 => RequestTypeSpecific::GetValue(GetValueRequestArguments { target, seq: oseq, salt: None }),
        5 => put(PutRequestSpecific::AnnouncePeer(AnnouncePeerRequestArguments { info_hash: target, port, implied_port: implied })),
        6 => put(PutRequestSpecific::AnnounceSignedPeer(AnnounceSignedPeerRequestArguments { info_hash: target, t: tstamp, k, sig })),
        7 => put(PutRequestSpecific::PutImmutable(PutImmutableRequestArguments { target, v: Box::new([k0, 5]) })),
        _ => put(PutRequestSpecific::PutMutable(PutMutableRequestArguments { target, v: Box::new([k0, 5]), k, seq, sig, salt: opt_box(has_salt, 0x5A), cas })),
    };
    let tid: u32 = kani::any();
    let ro: bool = kani::any();
    let version: Option<[u8; 4]> = kani::any();
    let m = Message { transaction_id: tid, version, requester_ip: None, read_only: ro, message_type: MessageType::Request(RequestSpecific { requester_id: idb(0x33), request_type: rt }) };
    let back = match roundtrip(m) {
        Ok(b) => b,
        Err(_) => {
            assert!(false, "C10: a message the library can build must decode");
            return;
        }
    };
    assert!(back.transaction_id == tid && back.read_only == ro && back.version == version && back.requester_ip.is_none(), "C10: tid, ro and version survive");
    let req = match &back.message_type {
        MessageType::Request(r) => r,
        _ => {
            assert!(false, "C10: a request decodes as a request");
            return;
        }
    };
    assert!(req.requester_id == idb(0x33));
    let ok = match (&req.request_type, kind) {
        (RequestTypeSpecific::Ping, 0) => true,
        (RequestTypeSpecific::FindNode(a), 1) => a.target == target,
        (RequestTypeSpecific::GetPeers(a), 2) => a.info_hash == target,
        (RequestTypeSpecific::GetSignedPeers(a), 3) => a.info_hash == target,
        (RequestTypeSpecific::GetValue(a), 4) => a.target == target && a.seq == oseq,
        (RequestTypeSpecific::Put(p), _) => {
            p.token.len() == 2 && p.token[0] == tok0 && match (&p.put_request_type, kind) {
                (PutRequestSpecific::AnnouncePeer(a), 5) => a.info_hash == target && a.port == port && (a.implied_port == Some(true)) == (implied == Some(true)),
                (PutRequestSpecific::AnnounceSignedPeer(a), 6) => a.info_hash == target && a.t == tstamp && a.k == k && a.sig == sig,
                (PutRequestSpecific::PutImmutable(a), 7) => a.target == target && a.v.len() == 2 && a.v[0] == k0,
                (PutRequestSpecific::PutMutable(a), 8) => {
                    a.target == target && a.v.len() == 2 && a.v[0] == k0 && a.k == k && a.sig == sig && a.seq == seq && a.cas == cas
                        && a.salt.is_some() == has_salt && (!has_salt || (a.salt.as_ref().unwrap().len() == 3 && a.salt.as_ref().unwrap()[0] == 0x5A))
                }
                _ => false,
            }
        }
        _ => false,
    };
    assert!(ok, "C10: decoding the encoding of a request yields an equivalent request (same kind, same fields; implied_port compared as `== 1`)");
    core::mem::forget(back);
}

// one harness per request kind (the kind is concrete: with a symbolic kind the SAT instance did not
// finish in 40 minutes)
macro_rules! request_harness {
    ($name:ident, $kind:expr) => {
        #[kani::proof]
        #[kani::unwind(70)]
        fn $name() {
            request_round_trip_case($kind)
        }
    };
}
request_harness!(c10_ping_request_round_trips, 0);
request_harness!(c10_find_node_request_round_trips, 1);
request_harness!(c10_get_peers_request_round_trips, 2);
request_harness!(c10_get_signed_peers_request_round_trips, 3);
request_harness!(c10_get_value_request_round_trips, 4);
request_harness!(c10_announce_peer_request_round_trips, 5);
request_harness!(c10_announce_signed_peer_request_round_trips, 6);
request_harness!(c10_put_immutable_request_round_trips, 7);
request_harness!(c10_put_mutable_request_round_trips, 8);

/// every response kind (8) and the error message, node lists absent / 1 node, peers 0..=1, seq over i64
fn response_round_trip_case(kind: u8) {
    let seq: i64 = kani::any();
    let k0: u8 = kani::any();
    let mut k = [0x11u8; 32];
    k[0] = k0;
    let mut sig = [0x22u8; 64];
    sig[63] = k0;
    let has_nodes: bool = kani::any();
    let naddr = SocketAddrV4::new(kani::any::<u32>().into(), kani::any());
    let nodes = || -> Option<Box<[Node]>> { if has_nodes { Some(Box::new([Node::new(idb(0x71), naddr)])) } else { None } };
    let token: Box<[u8]> = Box::new([k0, 4]);
    let paddr = SocketAddrV4::new(kani::any::<u32>().into(), kani::any());
    let has_peer: bool = kani::any();
    let tstamp: u64 = kani::any();
    let code: i32 = kani::any();
    let rid = idb(0x61);
    let mt = match kind {
        0 => MessageType::Response(ResponseSpecific::Ping(PingResponseArguments { responder_id: rid })),
        1 => MessageType::Response(ResponseSpecific::FindNode(FindNodeResponseArguments { responder_id: rid, nodes: nodes().unwrap_or(Box::new([])) })),
        2 => MessageType::Response(ResponseSpecific::GetPeers(GetPeersResponseArguments { responder_id: rid, token: token.clone(), nodes: nodes(), values: if has_peer { vec![paddr] } else { vec![] } })),
        3 => MessageType::Response(ResponseSpecific::GetSignedPeers(GetSignedPeersResponseArguments { responder_id: rid, token: token.clone(), nodes: nodes(), peers: if has_peer { vec![(k, tstamp, sig)] } else { vec![] } })),
        4 => MessageType::Response(ResponseSpecific::GetImmutable(GetImmutableResponseArguments { responder_id: rid, token: token.clone(), nodes: nodes(), v: Box::new([k0, 5]) })),
        5 => MessageType::Response(ResponseSpecific::GetMutable(GetMutableResponseArguments { responder_id: rid, token: token.clone(), nodes: nodes(), v: Box::new([k0, 5]), k, seq, sig })),
        6 => MessageType::Response(ResponseSpecific::NoValues(NoValuesResponseArguments { responder_id: rid, token: token.clone(), nodes: nodes() })),
        7 => MessageType::Response(ResponseSpecific::NoMoreRecentValue(NoMoreRecentValueResponseArguments { responder_id: rid, token: token.clone(), nodes: nodes(), seq })),
        _ => MessageType::Error(ErrorSpecific { code, description: String::new() }),
    };
    let tid: u32 = kani::any();
    let rip: Option<SocketAddrV4> = if kani::any() { Some(paddr) } else { None };
    let m = Message { transaction_id: tid, version: None, requester_ip: rip, read_only: false, message_type: mt };
    let back = match roundtrip(m) {
        Ok(b) => b,
        Err(_) => {
            assert!(false, "C10: a message the library can build must decode");
            return;
        }
    };
    assert!(back.transaction_id == tid && back.requester_ip == rip && !back.read_only);
    let nodes_ok = |ns: &Option<Box<[Node]>>| match ns {
        Some(l) => has_nodes && l.len() == 1 && l[0].id() == &idb(0x71) && l[0].address() == naddr,
        None => !has_nodes,
    };
    let tok_ok = |t: &Box<[u8]>| t.len() == 2 && t[0] == k0;
    let ok = match (&back.message_type, kind) {
        (MessageType::Response(ResponseSpecific::Ping(a)), 0) => a.responder_id == rid,
        (MessageType::Response(ResponseSpecific::FindNode(a)), 1) => a.responder_id == rid && a.nodes.len() == (if has_nodes { 1 } else { 0 }) && (!has_nodes || (a.nodes[0].id() == &idb(0x71) && a.nodes[0].address() == naddr)),
        (MessageType::Response(ResponseSpecific::GetPeers(a)), 2) => a.responder_id == rid && tok_ok(&a.token) && nodes_ok(&a.nodes) && a.values.len() == (if has_peer { 1 } else { 0 }) && (!has_peer || a.values[0] == paddr),
        (MessageType::Response(ResponseSpecific::GetSignedPeers(a)), 3) => a.responder_id == rid && tok_ok(&a.token) && nodes_ok(&a.nodes) && a.peers.len() == (if has_peer { 1 } else { 0 }) && (!has_peer || (a.peers[0].0 == k && a.peers[0].1 == tstamp && a.peers[0].2 == sig)),
        (MessageType::Response(ResponseSpecific::GetImmutable(a)), 4) => a.responder_id == rid && tok_ok(&a.token) && nodes_ok(&a.nodes) && a.v.len() == 2 && a.v[0] == k0,
        (MessageType::Response(ResponseSpecific::GetMutable(a)), 5) => a.responder_id == rid && tok_ok(&a.token) && nodes_ok(&a.nodes) && a.v.len() == 2 && a.v[0] == k0 && a.k == k && a.seq == seq && a.sig == sig,
        (MessageType::Response(ResponseSpecific::NoValues(a)), 6) => a.responder_id == rid && tok_ok(&a.token) && nodes_ok(&a.nodes),
        (MessageType::Response(ResponseSpecific::NoMoreRecentValue(a)), 7) => a.responder_id == rid && tok_ok(&a.token) && nodes_ok(&a.nodes) && a.seq == seq,
        (MessageType::Error(e), 8) => e.code == code && e.description.is_empty(),
        _ => false,
    };
    assert!(ok, "C10: decoding the encoding of a response / error yields an equivalent message");
    core::mem::forget(back);
}

macro_rules! response_harness {
    ($name:ident, $kind:expr) => {
        #[kani::proof]
        #[kani::unwind(110)]
        #[kani::stub(std::time::Instant::now, clock::mock_now)]
        fn $name() {
            response_round_trip_case($kind)
        }
    };
}
response_harness!(c10_ping_response_round_trips, 0);
response_harness!(c10_find_node_response_round_trips, 1);
response_harness!(c10_get_peers_response_round_trips, 2);
response_harness!(c10_get_signed_peers_response_round_trips, 3);
response_harness!(c10_get_immutable_response_round_trips, 4);
response_harness!(c10_get_mutable_response_round_trips, 5);
response_harness!(c10_no_values_response_round_trips, 6);
response_harness!(c10_no_more_recent_value_response_round_trips, 7);
response_harness!(c10_error_message_round_trips, 8);

// ---- C05 + C10: what a decoder can hand to from_serde_message --------------------------------

fn ping_mirror(tid: Vec<u8>) -> internal::DHTMessage {
    internal::DHTMessage {
        transaction_id: tid,
        version: None,
        ip: None,
        read_only: None,
        variant: internal::DHTMessageVariant::Request(internal::DHTRequestSpecific::Ping { arguments: internal::DHTPingRequestArguments { id: [7; 20] } }),
    }
}

/// transaction ids of 2 and 4 bytes are accepted (big-endian), every other length is a decode error
#[kani::proof]
#[kani::unwind(70)]
fn c10_transaction_ids_of_2_and_4_bytes_are_accepted() {
    let b: [u8; 5] = kani::any();
    let len: usize = kani::any();
    kani::assume(len <= 5);
    let tid: Vec<u8> = match len {
        0 => vec![],
        1 => vec![b[0]],
        2 => vec![b[0], b[1]],
        3 => vec![b[0], b[1], b[2]],
        4 => vec![b[0], b[1], b[2], b[3]],
        _ => vec![b[0], b[1], b[2], b[3], b[4]],
    };
    let r = Message::from_serde_message(ping_mirror(tid));
    match &r {
        Ok(m) => {
            assert!(len == 2 || len == 4, "C10: only 2- and 4-byte transaction ids are accepted");
            let want = if len == 2 { u16::from_be_bytes([b[0], b[1]]) as u32 } else { u32::from_be_bytes([b[0], b[1], b[2], b[3]]) };
            assert!(m.transaction_id == want, "C10: the transaction id is read big-endian");
        }
        Err(_) => assert!(len != 2 && len != 4, "C10: both 2- and 4-byte transaction ids are accepted"),
    }
    kani::cover!(len == 2 && r.is_ok());
    kani::cover!(len == 4 && r.is_ok());
    core::mem::forget(r);
}

/// a `put` with every subset of the optional fields k / seq / sig / cas / salt present, any `ro`,
/// an `ip` field or not: decodes or is rejected, never panics; mutable iff k (with seq and sig)
#[kani::proof]
#[kani::unwind(70)]
fn c05_put_with_any_subset_of_optional_fields_never_panics() {
    let has_k: bool = kani::any();
    let has_seq: bool = kani::any();
    let has_sig: bool = kani::any();
    let cas: Option<i64> = kani::any();
    let has_salt: bool = kani::any();
    let seq: i64 = kani::any();
    let ro: Option<i32> = kani::any();
    let m = internal::DHTMessage {
        transaction_id: vec![1, 2],
        version: kani::any(),
        ip: kani::any(),
        read_only: ro,
        variant: internal::DHTMessageVariant::Request(internal::DHTRequestSpecific::PutValue {
            arguments: internal::DHTPutValueRequestArguments {
                id: [7; 20],
                target: [8; 20],
                token: Box::new([1]),
                v: Box::new([2]),
                k: if has_k { Some([3; 32]) } else { None },
                sig: if has_sig { Some([4; 64]) } else { None },
                seq: if has_seq { Some(seq) } else { None },
                cas,
                salt: opt_box(has_salt, 6),
            },
        }),
    };
    let r = Message::from_serde_message(m);
    match &r {
        Ok(msg) => {
            assert!(!has_k || (has_seq && has_sig), "C05: a put carrying k without seq or sig is rejected");
            assert!(msg.read_only == (match ro { Some(x) => x > 0, None => false }));
            match &msg.message_type {
                MessageType::Request(RequestSpecific { request_type: RequestTypeSpecific::Put(p), .. }) => match &p.put_request_type {
                    PutRequestSpecific::PutMutable(a) => assert!(has_k && a.seq == seq && a.cas == cas && a.salt.is_some() == has_salt),
                    PutRequestSpecific::PutImmutable(_) => assert!(!has_k),
                    _ => assert!(false),
                },
                _ => assert!(false),
            }
        }
        Err(_) => assert!(has_k && !(has_seq && has_sig), "C05/C10: every other put decodes"),
    }
    kani::cover!(r.is_err());
    kani::cover!(r.is_ok() && has_k);
    kani::cover!(r.is_ok() && !has_k && has_seq, "stray seq on an immutable put is tolerated");
    core::mem::forget(r);
}

/// responses carrying malformed compact fields (node lists, peer and signed-peer records of wrong
/// lengths): rejected, never a panic
#[kani::proof]
#[kani::unwind(110)]
#[kani::stub(std::time::Instant::now, clock::mock_now)]
fn c05_responses_with_malformed_compact_fields_never_panic() {
    let nodes_len: usize = kani::any();
    kani::assume(nodes_len == 0 || nodes_len == 25 || nodes_len == 26 || nodes_len == 27);
    let peer_len: usize = kani::any();
    kani::assume(peer_len == 0 || peer_len == 5 || peer_len == 6 || peer_len == 7 || peer_len == 18);
    let sp_len: usize = kani::any();
    kani::assume(sp_len == 0 || sp_len == 103 || sp_len == 104 || sp_len == 105 || sp_len == 208);
    let kind: u8 = kani::any();
    kani::assume(kind < 3);
    let nodes: Box<[u8]> = vec![1u8; nodes_len].into_boxed_slice();
    let variant = match kind {
        0 => internal::DHTResponseSpecific::FindNode { arguments: internal::DHTFindNodeResponseArguments { id: [7; 20], nodes } },
        1 => internal::DHTResponseSpecific::GetPeers { arguments: internal::DHTGetPeersResponseArguments { id: [7; 20], token: Box::new([1]), nodes: Some(nodes), values: vec![serde_bytes::ByteBuf::from(vec![2u8; peer_len])] } },
        _ => internal::DHTResponseSpecific::GetSignedPeers { arguments: internal::DHTGetSignedPeersResponseArguments { id: [7; 20], token: Box::new([1]), nodes: Some(nodes), peers: vec![serde_bytes::ByteBuf::from(vec![3u8; sp_len])] } },
    };
    let m = internal::DHTMessage { transaction_id: vec![1, 2, 3, 4], version: None, ip: kani::any(), read_only: None, variant: internal::DHTMessageVariant::Response(variant) };
    let r = Message::from_serde_message(m);
    let nodes_ok = nodes_len % 26 == 0;
    let want_ok = nodes_ok && match kind { 0 => true, 1 => peer_len == 6, _ => sp_len == 104 };
    assert!(r.is_ok() == want_ok, "C05/C10: compact fields of the wrong length are decode errors (never a panic, never a silent truncation)");
    kani::cover!(r.is_ok() && kind == 2);
    kani::cover!(r.is_err() && kind == 2 && nodes_ok && sp_len == 208, "two records glued together are rejected");
    kani::cover!(r.is_err() && kind == 2 && nodes_ok && sp_len == 0);
    core::mem::forget(r);
}

// ---- C05: the two pre-checks of Message::from_bytes --------------------------------------------
fn stub_mirror_from_bytes(_bytes: &[u8]) -> Result<internal::DHTMessage, serde_bencode::Error> {
    Err(serde_bencode::Error::EndOfStream)
}

/// datagrams shorter than 15 bytes (including the empty one) and datagrams that do not start with
/// `d` are rejected before the bencode parser is reached — and without a panic
#[kani::proof]
#[kani::unwind(4)]
#[kani::stub(internal::DHTMessage::from_bytes, stub_mirror_from_bytes)]
fn c05_short_or_non_dictionary_datagrams_are_rejected_without_a_panic() {
    let buf: [u8; 16] = kani::any();
    let len: usize = kani::any();
    kani::assume(len <= 16);
    let r = Message::from_bytes(&buf[..len]);
    assert!(r.is_err(), "C05: nothing shorter than a KRPC message decodes (the parser stand-in rejects the rest)");
    kani::cover!(len == 0);
    kani::cover!(len == 15 && buf[0] == b'd');
    core::mem::forget(r);
}

// =============================================================================================
// The round trip in two halves (each half executes ONE of the two giant conversion functions; the
// composition decode(encode(m)) ~ m follows because the encode half pins down the mirror value that
// the decode half starts from). Measured: both functions in one harness did not finish in 30 min.
// =============================================================================================

/// encode half, announce_signed_peer: into_serde_message puts every field into the mirror unchanged;
/// the u64 timestamp is reinterpreted as i64 bit for bit (so the decoder's `as u64` restores it)
#[kani::proof]
#[kani::unwind(70)]
fn c10_encode_announce_signed_peer_is_field_for_field() {
    let t: u64 = kani::any();
    let k0: u8 = kani::any();
    let mut k = [0x11u8; 32];
    k[0] = k0;
    let mut sig = [0x22u8; 64];
    sig[63] = k0;
    let tid: u32 = kani::any();
    let ro: bool = kani::any();
    let m = Message { transaction_id: tid, version: kani::any(), requester_ip: None, read_only: ro,
        message_type: MessageType::Request(RequestSpecific { requester_id: idb(0x33), request_type: RequestTypeSpecific::Put(PutRequest { token: Box::new([k0, 9]),
            put_request_type: PutRequestSpecific::AnnounceSignedPeer(AnnounceSignedPeerRequestArguments { info_hash: idb(0x44), t, k, sig }) }) }) };
    let d = m.into_serde_message();
    assert!(d.transaction_id.len() == 4 && d.transaction_id[..] == tid.to_be_bytes(), "C10: 4-byte big-endian transaction id");
    assert!(d.read_only == Some(if ro { 1 } else { 0 }) && d.ip.is_none());
    match &d.variant {
        internal::DHTMessageVariant::Request(internal::DHTRequestSpecific::AnnounceSignedPeer { arguments: a }) => {
            assert!(a.t as u64 == t, "C10: the timestamp survives the i64 wire representation for every u64 value");
            assert!(a.k == k && a.sig == sig && a.id == *idb(0x33).as_bytes() && a.info_hash == *idb(0x44).as_bytes() && a.token.len() == 2 && a.token[0] == k0);
        }
        _ => assert!(false, "C10: an announce_signed_peer request is encoded as one"),
    }
    kani::cover!(t > i64::MAX as u64);
    core::mem::forget(d);
}

/// contract stub for Id::from_bytes on a 20-byte array (its contract — Ok <=> 20 bytes, the bytes
/// unchanged — is discharged on the real code by common::id::verif_kani::c19_from_bytes_total): with
/// it every `Id::from_bytes(..)?` in from_serde_message has a CONSTANT Ok discriminant and CBMC prunes
/// the error path (conversion into DecodeMessageError, drop of all live fields) at ~30 sites
fn stub_id_from_bytes<T: AsRef<[u8]>>(bytes: T) -> Result<Id, crate::common::InvalidIdSize> {
    let b = bytes.as_ref();
    let mut x = [0u8; ID_SIZE];
    x.copy_from_slice(&b[..ID_SIZE]);
    Ok(Id::from(x))
}

/// decode half, announce_signed_peer
#[kani::proof]
#[kani::unwind(70)]
#[kani::stub(Id::from_bytes, stub_id_from_bytes)]
fn c10_decode_announce_signed_peer_is_field_for_field() {
    let t: i64 = kani::any();
    let k0: u8 = kani::any();
    let mut k = [0x11u8; 32];
    k[0] = k0;
    let mut sig = [0x22u8; 64];
    sig[63] = k0;
    let d = internal::DHTMessage { transaction_id: vec![1, 2, 3, 4], version: None, ip: None, read_only: kani::any(),
        variant: internal::DHTMessageVariant::Request(internal::DHTRequestSpecific::AnnounceSignedPeer { arguments: internal::DHTAnnounceSignedPeerRequestArguments {
            id: *idb(0x33).as_bytes(), info_hash: *idb(0x44).as_bytes(), token: Box::new([k0, 9]), k, sig, t } }) };
    match Message::from_serde_message(d) {
        Ok(m) => match &m.message_type {
            MessageType::Request(RequestSpecific { requester_id, request_type: RequestTypeSpecific::Put(PutRequest { token, put_request_type: PutRequestSpecific::AnnounceSignedPeer(a) }) }) => {
                assert!(*requester_id == idb(0x33) && a.info_hash == idb(0x44) && a.t == t as u64 && a.k == k && a.sig == sig && token.len() == 2 && token[0] == k0,
                    "C10: decoding restores every field of an announce_signed_peer");
                assert!(m.transaction_id == 0x01020304);
            }
            _ => assert!(false, "C10: decoded as another kind"),
        },
        Err(_) => assert!(false, "C10: a well-formed announce_signed_peer must decode"),
    }
}
