// Kani harness module for src/common/signed_announce.rs (child `verif_kani`). Properties C03, C02.
//
// `stub_from_dht_request` / `stub_from_dht_response`: the CONTRACT of SignedAnnounce::from_dht_message
// made executable for callers' harnesses:
//   Ok(a) <=> key is 32 bytes && sig is 64 bytes && verify(key, info_hash || t, sig)
//             && (request only) |now - t| <= 45 s
//   Ok(a) ==> a == { key, timestamp: t, signature: sig }
use super::*;

pub(crate) static mut ANN_SIG_OK: bool = true; // ghost: ed25519 verdict
pub(crate) static mut ANN_SIG_OK2: bool = true; // ghost: verdict for announcements whose key starts with 3 (mixed valid/invalid lists)
pub(crate) static mut ANN_TIME_OK: bool = true; // ghost: |now - t| <= 45 s
pub(crate) static mut ANN_CALLS: u32 = 0;
pub(crate) static mut ANN_HASH0: u8 = 0; // first byte of the info_hash the caller asked to verify against
pub(crate) static mut NOW_US: u64 = 1_700_000_000_000_000; // ghost wall clock (microseconds)

fn build(info_hash: &Id, key: &[u8], timestamp: u64, signature: &[u8], check_time: bool) -> Result<SignedAnnounce, SignedAnnounceError> {
    unsafe {
        ANN_CALLS += 1;
        ANN_HASH0 = info_hash.as_bytes()[0];
    }
    let key: [u8; 32] = match key.try_into() {
        Ok(k) => k,
        Err(_) => return Err(SignedAnnounceError::PublicKey),
    };
    let signature: [u8; 64] = match signature.try_into() {
        Ok(s) => s,
        Err(_) => return Err(SignedAnnounceError::Signature),
    };
    if !(if key[0] == 3 { unsafe { ANN_SIG_OK2 } } else { unsafe { ANN_SIG_OK } }) {
        return Err(SignedAnnounceError::Signature);
    }
    if check_time && !unsafe { ANN_TIME_OK } {
        return Err(SignedAnnounceError::Timestamp);
    }
    Ok(SignedAnnounce { key, timestamp, signature })
}

pub(crate) fn stub_from_dht_request(info_hash: &Id, key: &[u8], timestamp: u64, signature: &[u8]) -> Result<SignedAnnounce, SignedAnnounceError> {
    build(info_hash, key, timestamp, signature, true)
}

pub(crate) fn stub_from_dht_response(info_hash: &Id, key: &[u8], timestamp: u64, signature: &[u8]) -> Result<SignedAnnounce, SignedAnnounceError> {
    build(info_hash, key, timestamp, signature, false)
}

/// stub for the private `system_time()` (SystemTime::now is a foreign call)
pub(crate) fn stub_system_time() -> u64 {
    unsafe { NOW_US }
}

// ---------------------------------------------------------------------------------------------
// Obligation: the REAL SignedAnnounce::from_dht_request / from_dht_response satisfy that contract.
// Dependency boundary: VerifyingKey::from_bytes, <VerifyingKey as Verifier>::verify (ed25519),
// SystemTime::now (through the private `system_time()`).
// ---------------------------------------------------------------------------------------------
mod spec {
    include!("/verif/spec/server.rs");
}

static mut KEY_IS_POINT: bool = true;
static mut VERIFY_CALLS: u32 = 0;
static mut VERIFY_KEY0: u8 = 0;
static mut VERIFY_SIG0: u8 = 0;
static mut VERIFY_MSG_OK: bool = false;
static mut EXPECT_HASH: [u8; 20] = [0; 20];
static mut EXPECT_T: u64 = 0;

fn stub_vk_from_bytes(bytes: &[u8; 32]) -> Result<VerifyingKey, ed25519_dalek::SignatureError> {
    if unsafe { KEY_IS_POINT } {
        let vk = VerifyingKey::default();
        let p = vk.as_bytes().as_ptr() as usize as *mut u8;
        unsafe { core::ptr::copy_nonoverlapping(bytes.as_ptr(), p, 32) };
        Ok(vk)
    } else {
        Err(ed25519_dalek::SignatureError::new())
    }
}

fn stub_verify(k: &VerifyingKey, message: &[u8], signature: &Signature) -> Result<(), ed25519_dalek::SignatureError> {
    unsafe {
        VERIFY_CALLS += 1;
        VERIFY_KEY0 = k.as_bytes()[0];
        VERIFY_SIG0 = signature.to_bytes()[0];
        // the signed message must be info_hash || big-endian timestamp (28 bytes)
        VERIFY_MSG_OK = message.len() == 28 && message[..20] == EXPECT_HASH && message[20..] == EXPECT_T.to_be_bytes();
        if ANN_SIG_OK { Ok(()) } else { Err(ed25519_dalek::SignatureError::new()) }
    }
}

fn real_from_dht_message_case(request: bool) -> (bool, bool, u64, u64) {
    let key_len: usize = kani::any();
    kani::assume(key_len == 31 || key_len == 32 || key_len == 33);
    let sig_len: usize = kani::any();
    kani::assume(sig_len == 63 || sig_len == 64 || sig_len == 65);
    let kbuf: [u8; 33] = kani::any();
    let sbuf: [u8; 65] = kani::any();
    let hash: [u8; 20] = kani::any();
    let t: u64 = kani::any();
    let now: u64 = kani::any();
    let point: bool = kani::any();
    let sig_ok: bool = kani::any();
    unsafe {
        KEY_IS_POINT = point;
        ANN_SIG_OK = sig_ok;
        NOW_US = now;
        EXPECT_HASH = hash;
        EXPECT_T = t;
    }
    let id = Id::from(hash);
    let r = if request {
        SignedAnnounce::from_dht_request(&id, &kbuf[..key_len], t, &sbuf[..sig_len])
    } else {
        SignedAnnounce::from_dht_response(&id, &kbuf[..key_len], t, &sbuf[..sig_len])
    };
    let fresh = spec::timestamp_ok(now, t);
    let want = key_len == 32 && point && sig_len == 64 && sig_ok && (!request || fresh);
    assert!(r.is_ok() == want, "C03/C02: a signed announcement is accepted <=> key and signature well-formed, signature verifies, and (requests only) |now - t| <= 45 s");
    if let Ok(a) = &r {
        assert!(unsafe { VERIFY_CALLS } == 1 && unsafe { VERIFY_MSG_OK } && unsafe { VERIFY_KEY0 } == kbuf[0] && unsafe { VERIFY_SIG0 } == sbuf[0],
            "the signature was verified under the given key over info_hash || timestamp");
        assert!(a.key[..] == kbuf[..32] && a.timestamp == t && a.signature[..] == sbuf[..64], "the announcement carries the arguments unchanged");
    }
    let out = (r.is_ok(), key_len == 32 && point && sig_len == 64 && sig_ok, now, t);
    core::mem::forget(r);
    out
}

#[kani::proof]
#[kani::unwind(70)]
#[kani::stub(ed25519_dalek::VerifyingKey::from_bytes, stub_vk_from_bytes)]
#[kani::stub(<ed25519_dalek::VerifyingKey as ed25519_dalek::Verifier<ed25519_dalek::Signature>>::verify, stub_verify)]
#[kani::stub(system_time, stub_system_time)]
fn c03_signed_announce_request_ok_iff_signature_and_timestamp_within_45s() {
    let (ok, crypto_ok, now, t) = real_from_dht_message_case(true);
    kani::cover!(ok);
    kani::cover!(!ok && crypto_ok, "refused only because of the timestamp");
    kani::cover!(ok && now == t.wrapping_add(45_000_000), "exactly 45 s old accepted");
    kani::cover!(ok && t == now.wrapping_add(45_000_000), "exactly 45 s ahead accepted");
}

#[kani::proof]
#[kani::unwind(70)]
#[kani::stub(ed25519_dalek::VerifyingKey::from_bytes, stub_vk_from_bytes)]
#[kani::stub(<ed25519_dalek::VerifyingKey as ed25519_dalek::Verifier<ed25519_dalek::Signature>>::verify, stub_verify)]
#[kani::stub(system_time, stub_system_time)]
fn c02_signed_announce_response_ok_iff_signature_verifies() {
    let (ok, crypto_ok, now, t) = real_from_dht_message_case(false);
    kani::cover!(ok && (now > t.saturating_add(46_000_000)), "an old announcement is still authentic in a response");
    kani::cover!(!ok && !crypto_ok);
}
