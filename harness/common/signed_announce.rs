// Kani harness module for src/common/signed_announce.rs (child `verif_kani`). Properties C03, C02.
//
// `stub_from_dht_request` / `stub_from_dht_response`: the CONTRACT of SignedAnnounce::from_dht_message
// made executable for callers' harnesses:
//   Ok(a) <=> key is 32 bytes && sig is 64 bytes && verify(key, info_hash || t, sig)
//             && (request only) |now - t| <= 45 s
//   Ok(a) ==> a == { key, timestamp: t, signature: sig }
use super::*;

pub(crate) static mut ANN_SIG_OK: bool = true; // ghost: ed25519 verdict
pub(crate) static mut ANN_TIME_OK: bool = true; // ghost: |now - t| <= 45 s
pub(crate) static mut ANN_CALLS: u32 = 0;
pub(crate) static mut ANN_HASH0: u8 = 0; // first byte of the info_hash the caller asked to verify against
pub(crate) static mut NOW_US: u64 = 1_700_000_000_000_000; // ghost wall clock (microseconds)

fn build(info_hash: &Id, key: &[u8], timestamp: u64, signature: &[u8], check_time: bool) -> Result<SignedAnnounce, SignedAnnounceError> {
    unsafe {
        ANN_CALLS += 1;
        ANN_HASH0 = info_hash.as_bytes()[0];
    }
    let key: [u8; 32] = match key.try_into() {
        Ok(k) => k,
        Err(_) => return Err(SignedAnnounceError::PublicKey),
    };
    let signature: [u8; 64] = match signature.try_into() {
        Ok(s) => s,
        Err(_) => return Err(SignedAnnounceError::Signature),
    };
    if !unsafe { ANN_SIG_OK } {
        return Err(SignedAnnounceError::Signature);
    }
    if check_time && !unsafe { ANN_TIME_OK } {
        return Err(SignedAnnounceError::Timestamp);
    }
    Ok(SignedAnnounce { key, timestamp, signature })
}

pub(crate) fn stub_from_dht_request(info_hash: &Id, key: &[u8], timestamp: u64, signature: &[u8]) -> Result<SignedAnnounce, SignedAnnounceError> {
    build(info_hash, key, timestamp, signature, true)
}

pub(crate) fn stub_from_dht_response(info_hash: &Id, key: &[u8], timestamp: u64, signature: &[u8]) -> Result<SignedAnnounce, SignedAnnounceError> {
    build(info_hash, key, timestamp, signature, false)
}

/// stub for the private `system_time()` (SystemTime::now is a foreign call)
pub(crate) fn stub_system_time() -> u64 {
    unsafe { NOW_US }
}
