// Kani harness module for src/actor.rs (child `verif_kani` of `actor`). C18 (adaptive mode switches
// to server at the 15-minute refresh iff not firewalled), C14 (the table is refreshed every 15
// minutes and whenever it is empty; the 5-minute ping round).
//
// The Actor is built around a raw descriptor that is never used; populate(), ping() and
// Core::check_nodes_to_ping_and_remove_stale_nodes are recording stubs (their own contracts:
// c14_maintenance_round_* in core.rs, C07 for the lookup populate() starts).
use super::*;
use crate::core::verif_kani::core;

include!("/verif/harness/support.rs");

static mut POPULATE_CALLS: u32 = 0;
static mut PING_CALLS: u32 = 0;
static mut PING_PORTS: [u16; 2] = [0; 2];
static mut MAINT_CALLS: u32 = 0;

fn stub_populate(_a: &mut Actor) {
    unsafe { POPULATE_CALLS += 1 }
}
fn stub_ping(_a: &mut Actor, address: SocketAddrV4) {
    unsafe {
        if PING_CALLS < 2 {
            PING_PORTS[PING_CALLS as usize] = address.port();
        }
        PING_CALLS += 1
    }
}
fn stub_maintenance(_c: &mut Core) -> Vec<SocketAddrV4> {
    unsafe { MAINT_CALLS += 1 };
    vec![SocketAddrV4::new(1u32.into(), 101), SocketAddrV4::new(2u32.into(), 102)]
}
fn fill_const(dest: &mut [u8]) -> Result<(), getrandom::Error> {
    let mut i = 0usize;
    while i < dest.len() {
        dest[i] = 3;
        i += 1;
    }
    Ok(())
}

fn actor(server_mode: bool) -> Actor {
    Actor { socket: socket::verif_kani::idle_socket(server_mode), core: core(server_mode), put_senders: HashMap::new(), get_senders: HashMap::new() }
}

#[kani::proof]
#[kani::unwind(22)]
#[kani::stub(std::time::Instant::now, clock::mock_now)]
#[kani::stub(std::time::Instant::elapsed, clock::mock_elapsed)]
#[kani::stub(getrandom::fill, fill_const)]
#[kani::stub(Actor::populate, stub_populate)]
#[kani::stub(Actor::ping, stub_ping)]
#[kani::stub(Core::check_nodes_to_ping_and_remove_stale_nodes, stub_maintenance)]
fn c18_adaptive_node_becomes_server_at_the_refresh_iff_not_firewalled() {
    let server_mode: bool = kani::any();
    let mut a = actor(server_mode);
    let firewalled: bool = kani::any();
    a.core.firewalled = firewalled;
    let refresh_age: u64 = kani::any();
    let ping_age: u64 = kani::any();
    kani::assume(refresh_age <= 2_000_000 && ping_age <= 2_000_000);
    a.core.last_table_refresh = clock::ago_ms(refresh_age);
    a.core.last_table_ping = clock::ago_ms(ping_age);
    let empty: bool = kani::any();
    if !empty {
        crate::common::verif_kani::routing_table::place_pub(
            &mut a.core.routing_table,
            crate::common::verif_kani::node::node_aged(crate::core::verif_kani::id1(0x10), SocketAddrV4::new(9u32.into(), 9), 0),
        );
    }
    a.periodic_node_maintaenance();
    let refresh_due = refresh_age > 15 * 60 * 1000;
    let ping_due = ping_age > 5 * 60 * 1000;
    // C18: the switch
    let becomes_server = !server_mode && refresh_due && !firewalled;
    assert!(a.core.server_mode == (server_mode || becomes_server), "C18: an adaptive node switches to server mode at the 15-minute refresh iff it is not firewalled; a firewalled (NATed) one stays a client");
    assert!(a.socket.server_mode == a.core.server_mode, "C18: the socket (read-only flag of outgoing messages) follows the mode");
    // C14: refresh every 15 minutes, bootstrap whenever the table is empty
    assert!(unsafe { POPULATE_CALLS } == (if empty { 1 } else { 0 }) + (if refresh_due { 1 } else { 0 }), "C14: the table is re-populated when it is empty and at every 15-minute refresh");
    if refresh_due {
        assert!(a.core.last_table_refresh == clock::mock_now(), "the refresh timer restarts");
    } else {
        assert!(a.core.last_table_refresh == clock::ago_ms(refresh_age));
    }
    // C14: the 5-minute ping round
    assert!(unsafe { MAINT_CALLS } == if ping_due { 1 } else { 0 });
    assert!(unsafe { PING_CALLS } == if ping_due { 2 } else { 0 }, "C14: every address the maintenance round returns is pinged");
    if ping_due {
        assert!(unsafe { PING_PORTS } == [101, 102] && a.core.last_table_ping == clock::mock_now());
    }
    kani::cover!(becomes_server);
    kani::cover!(!server_mode && refresh_due && firewalled);
    kani::cover!(!server_mode && !refresh_due && !firewalled);
    kani::cover!(refresh_age == 900_000);
    core::mem::forget(a);
}

// =============================================================================================
// C17 (and C06): Actor::put — a write is registered as in flight only if it was actually started
// (or parked behind its lookup); a put that fails at once leaves nothing behind that a later put
// for the same key would be compared with.
// =============================================================================================
static mut CACHED: bool = false;
static mut START_OK: bool = true;
static mut START_CALLS: u32 = 0;
static mut GET_CALLS: u32 = 0;

fn stub_cached_closest(_c: &mut Core, _target: &Id) -> Option<Box<[Node]>> {
    if unsafe { CACHED } { Some(Box::new([])) } else { None }
}
fn stub_start(_q: &mut PutQuery, _s: &mut KrpcSocket, _nodes: &[Node]) -> Result<(), PutError> {
    unsafe { START_CALLS += 1 };
    if unsafe { START_OK } { Ok(()) } else { Err(PutError::Query(crate::core::PutQueryError::NoClosestNodes)) }
}
fn stub_get(_a: &mut Actor, request: GetRequestSpecific, _extra: Option<&[SocketAddrV4]>) -> Vec<Response> {
    unsafe { GET_CALLS += 1 };
    core::mem::forget(request);
    Vec::new()
}

fn stub_no_conflict(_c: &mut Core, _r: &PutRequestSpecific) -> Result<(), crate::core::ConcurrencyError> {
    Ok(())
}

fn actor_put_case(prior: bool) -> (bool, bool) {
    let mut a = actor(true);
    let cached: bool = kani::any();
    let start_ok: bool = kani::any();
    unsafe {
        CACHED = cached;
        START_OK = start_ok;
    }
    let target = crate::core::verif_kani::id1(0x10);
    let mk = || PutRequestSpecific::PutMutable(crate::common::PutMutableRequestArguments { target, v: Box::new([1]), k: [1; 32], seq: 3, sig: [2; 64], salt: None, cas: None });
    // pre-state: the very same item may already be in flight (an identical put is accepted: "both
    // calls succeed"); the second call must still be driven to completion
    if prior {
        a.core.put_queries.insert(target, PutQuery::new(mk(), None));
    }
    let r = a.put(mk(), None);
    let registered = a.core.put_queries.a.is_some() || a.core.put_queries.b.is_some();
    if cached {
        assert!(unsafe { START_CALLS } == 1 && unsafe { GET_CALLS } == 0, "fresh cached closest nodes: the store requests are sent at once");
        assert!(r.is_ok() == start_ok, "C06/C08: a put that could not be started fails at once");
        assert!(registered == (start_ok || prior), "C17: a put that failed at once is not left registered as in flight (a later put for the same key must not be compared with it)");
    } else {
        assert!(unsafe { GET_CALLS } == 1 && unsafe { START_CALLS } == 0, "C06: no cached nodes: a lookup is started and the put waits for it — also when an identical put is already waiting");
        assert!(r.is_ok() && registered, "C17: the waiting put is registered, so that a concurrent put for the same key is compared with it");
    }
    core::mem::forget(r);
    core::mem::forget(a);
    (cached, start_ok)
}

#[kani::proof]
#[kani::unwind(66)]
#[kani::stub(std::time::Instant::now, clock::mock_now)]
#[kani::stub(std::time::Instant::elapsed, clock::mock_elapsed)]
#[kani::stub(getrandom::fill, fill_const)]
#[kani::stub(Core::get_cached_closest_nodes, stub_cached_closest)]
#[kani::stub(PutQuery::start, stub_start)]
#[kani::stub(Actor::get, stub_get)]
fn c17_actor_put_registers_a_write_only_if_it_started() {
    let (cached, start_ok) = actor_put_case(false);
    kani::cover!(cached && !start_ok);
    kani::cover!(cached && start_ok);
    kani::cover!(!cached);
}

/// the same with an identical put already waiting; Core::check_concurrency_errors is replaced by its
/// contract for that case (identical item => Ok: c17_check_concurrency_errors_is_the_rule_table)
#[kani::proof]
#[kani::unwind(22)]
#[kani::stub(std::time::Instant::now, clock::mock_now)]
#[kani::stub(std::time::Instant::elapsed, clock::mock_elapsed)]
#[kani::stub(getrandom::fill, fill_const)]
#[kani::stub(Core::get_cached_closest_nodes, stub_cached_closest)]
#[kani::stub(PutQuery::start, stub_start)]
#[kani::stub(Actor::get, stub_get)]
#[kani::stub(Core::check_concurrency_errors, stub_no_conflict)]
fn c06_actor_put_behind_an_identical_waiting_put_still_starts_its_lookup() {
    let (cached, _start_ok) = actor_put_case(true);
    kani::cover!(!cached, "an identical put while the first one is still waiting for its lookup");
    kani::cover!(cached);
}

// =============================================================================================
// C06: start_put_queries — a put parked behind a lookup is either started or failed AT ONCE when
// that lookup finishes; it is never left parked behind nothing
// =============================================================================================
#[kani::proof]
#[kani::unwind(22)]
#[kani::stub(std::time::Instant::now, clock::mock_now)]
#[kani::stub(std::time::Instant::elapsed, clock::mock_elapsed)]
#[kani::stub(getrandom::fill, fill_const)]
#[kani::stub(PutQuery::start, stub_start)]
#[kani::stub(Actor::get, stub_get)]
fn c06_a_parked_put_is_started_or_failed_when_its_lookup_finishes() {
    let mut a = actor(true);
    let target = crate::core::verif_kani::id1(0x10);
    // the lookup that just finished for this target may be of any kind (a find_node for the same
    // target as well as the get lookup the put itself started) and is still registered, as in tick()
    let kind: u8 = kani::any();
    kani::assume(kind < 4);
    a.core.iterative_queries.insert(target, crate::core::iterative_query::verif_kani::query(kind, target));
    a.core.put_queries.insert(target, PutQuery::new(PutRequestSpecific::PutImmutable(crate::common::PutImmutableRequestArguments { target, v: Box::new([1]) }), None));
    let start_ok: bool = kani::any();
    unsafe { START_OK = start_ok };
    let done_gets: Vec<(Id, Box<[Node]>)> = vec![(target, Box::new([]))];
    let mut done_puts: Vec<(Id, Option<PutError>)> = Vec::with_capacity(2);
    a.start_put_queries(&done_gets, &mut done_puts);
    assert!(unsafe { START_CALLS } == 1, "C06: when the lookup a put waits for finishes, the put's store phase is started");
    assert!(unsafe { GET_CALLS } == 0, "C06: ... and no further lookup is substituted for it (the finished one is still registered, a new one would not start)");
    if start_ok {
        assert!(done_puts.is_empty());
    } else {
        assert!(done_puts.len() == 1 && done_puts[0].0 == target && done_puts[0].1.is_some(), "C06: a put that cannot be started fails at once with an error for its caller");
    }
    kani::cover!(kind == 0 && !start_ok);
    kani::cover!(kind == 3 && start_ok);
    core::mem::forget(done_puts);
    core::mem::forget(done_gets);
    core::mem::forget(a);
}
