// Kani harness module for src/core/handle_response.rs (child `verif_kani`).
// C02 (only authentic data is yielded), C07 (every listed node becomes a candidate), C09/C18 (a
// response that no lookup/put owns, or that is flagged read-only, has no effect), C14 (an expected
// response refreshes the responder in the routing table), C08 (acks and errors reach the put's tallies once).
//
// One harness per response kind (measured: everything symbolic in one harness does not terminate).
// Callees with their own contracts are replaced by contract/recording stubs:
//   MutableItem::from_dht_message, SignedAnnounce::from_dht_response  (C03 unit: real code vs. the stub's contract)
//   validate_immutable (SHA-1: layer A), ClosestNodes::add (C11), RoutingTable::add (C12)
use super::*;
use crate::common::verif_kani::mutable as mstub;
use crate::common::verif_kani::signed_announce as astub;
use crate::common::{ClosestNodes, FindNodeResponseArguments, GetValueRequestArguments, PingResponseArguments, RoutingTable, ID_SIZE};
use crate::core::iterative_query::verif_kani as iq;
use crate::core::verif_kani::{core, id1};
use crate::core::put_query::PutQuery;
use crate::verif_models::HashMap;

include!("/verif/harness/support.rs");

static mut IMM_OK: bool = true;
static mut IMM_TARGET0: u8 = 0;
static mut CAND_CALLS: u32 = 0; // ClosestNodes::add calls (candidates + responders)
static mut CAND_LAST_ID0: u8 = 0;
static mut RESPONDER_WITH_TOKEN: u32 = 0;
static mut RT_ADD_CALLS: u32 = 0;
static mut RT_ADD_ID0: u8 = 0;
static mut RT_ADD_IP: u32 = 0;

fn stub_validate_immutable(_v: &[u8], target: Id) -> bool {
    unsafe {
        IMM_TARGET0 = target.as_bytes()[0];
        IMM_OK
    }
}
fn stub_closest_add(_c: &mut ClosestNodes, node: Node) {
    unsafe {
        CAND_CALLS += 1;
        CAND_LAST_ID0 = node.id().as_bytes()[0];
        if node.token().is_some() {
            RESPONDER_WITH_TOKEN += 1;
        }
    }
    core::mem::forget(node);
}
fn stub_rt_add(_t: &mut RoutingTable, node: Node) -> bool {
    unsafe {
        RT_ADD_CALLS += 1;
        RT_ADD_ID0 = node.id().as_bytes()[0];
        RT_ADD_IP = node.address().ip().to_bits();
    }
    core::mem::forget(node);
    true
}
fn fill_const(dest: &mut [u8]) -> Result<(), getrandom::Error> {
    dest.fill(3); // memset: no loop to unwind
    Ok(())
}

const TID: u32 = 77;
const RESPONDER: u8 = 0x61;

fn msg(tid: u32, read_only: bool, version: Option<[u8; 4]>, mt: MessageType) -> Message {
    Message { transaction_id: tid, version, requester_ip: None, message_type: mt, read_only }
}

fn listed_nodes(n: usize) -> Option<Box<[Node]>> {
    match n {
        0 => None,
        1 => Some(Box::new([crate::common::verif_kani::node::node_aged(id1(0x71), SocketAddrV4::new(71u32.into(), 71), 0)])),
        _ => Some(Box::new([
            crate::common::verif_kani::node::node_aged(id1(0x71), SocketAddrV4::new(71u32.into(), 71), 0),
            crate::common::verif_kani::node::node_aged(id1(0x72), SocketAddrV4::new(72u32.into(), 72), 0),
        ])),
    }
}

/// a Core whose only lookup (kind as in iq::query; salt for get_value) owns transaction TID
fn install_lookup(c: &mut Core, kind: u8, target: Id, salt: Option<Box<[u8]>>) {
    // (takes &mut Core: returning a Core by value is a byte-wise move of a large struct after
    // which CBMC no longer knows which heap objects its boxes point to)
    // fresh (constant) map stand-ins: the ones inside the Core returned by Core::new went through
    // byte-wise moves of the whole Core, after which `slot.is_some()` is no longer a constant
    c.put_queries = HashMap::new();
    c.iterative_queries = HashMap::new();
    let mut q = iq::query(kind, target);
    if let RequestTypeSpecific::GetValue(ref mut a) = q.request.request_type {
        a.salt = salt;
    }
    c.iterative_queries.insert(target, q);
    // the in-flight list is filled AFTER the query was moved into the map: constants (the Vec's
    // length) do not survive the byte-wise move of a large struct, and a symbolic length makes every
    // `contains` loop run to the unwinding bound
    // (slot `a` of the map stand-in is addressed directly: a lookup by key compares 20 id bytes read
    // back from the heap, which CBMC does not fold, and the push would happen under a symbolic guard)
    match c.iterative_queries.a.as_mut() {
        Some(e) => iq::set_inflight(&mut e.1, &[TID]),
        None => unreachable!(),
    }
}

fn responses_recorded(c: &Core, _target: &Id) -> usize {
    match c.iterative_queries.a.as_ref() {
        Some(e) => iq::responses_len(&e.1),
        None => 0,
    }
}

/// contract stubs: "this lookup owns transaction TID" / "no put owns it" (the real one-liners
/// `inflight_requests.contains(&tid)` are exercised in core::iterative_query::verif_kani and
/// core::put_query::verif_kani; here a Vec that went through the byte-wise move of its owner has a
/// length CBMC cannot fold, and `contains` is unrolled to the unwinding bound)
fn stub_lookup_inflight(_q: &crate::core::iterative_query::IterativeQuery, tid: u32) -> bool {
    tid == TID
}
fn stub_no_put_inflight(_q: &PutQuery, _tid: u32) -> bool {
    false
}

macro_rules! resp_harness {
    (unwind $u:literal; fn $name:ident() $body:block) => {
        #[kani::proof]
        #[kani::unwind($u)]
        #[kani::stub(std::time::Instant::now, clock::mock_now)]
        #[kani::stub(getrandom::fill, fill_const)]
        #[kani::stub(crate::common::MutableItem::from_dht_message, mstub::stub_from_dht_message)]
        #[kani::stub(crate::common::SignedAnnounce::from_dht_response, astub::stub_from_dht_response)]
        #[kani::stub(crate::common::validate_immutable, stub_validate_immutable)]
        #[kani::stub(ClosestNodes::add, stub_closest_add)]
        #[kani::stub(RoutingTable::add, stub_rt_add)]
        #[kani::stub(crate::core::iterative_query::IterativeQuery::inflight, stub_lookup_inflight)]
        #[kani::stub(PutQuery::inflight, stub_no_put_inflight)]
        fn $name() $body
    };
}

// =============================================================================================
// get_mutable: only an item whose key hashes (with the QUERY's salt) to the QUERY's target and whose
// signature verifies is yielded; it carries the query's salt and target
// =============================================================================================
resp_harness! {
unwind 5;
fn c02_mutable_response_yielded_iff_key_matches_target_and_signature_verifies() {
    let target = id1(0x10);
    let with_salt: bool = kani::any();
    let mut c = core(true);
    install_lookup(&mut c, 3, target, if with_salt { Some(Box::new([5, 6])) } else { None });
    let target_ok: bool = kani::any();
    let sig_ok: bool = kani::any();
    unsafe {
        mstub::TARGET_MATCHES_KEY = target_ok;
        mstub::SIG_OK = sig_ok;
    }
    let seq: i64 = kani::any();
    let v0: u8 = kani::any();
    let k0: u8 = kani::any();
    let mut k = [0x11u8; 32];
    k[0] = k0;
    // arbitrary pre-state of the lookup: it may already have yielded an item — possibly one with the
    // very same seq and signature (a second responder replaying them around another value)
    let prior: bool = kani::any();
    let prior_same_seq: bool = kani::any();
    if prior {
        let pitem = mstub::item(target, [0x11; 32], if prior_same_seq { seq } else { seq.wrapping_add(1) }, Box::new([0xEE]), [0x22; 64], None);
        match c.iterative_queries.a.as_mut() {
            Some(e) => iq::push_response(&mut e.1, Response::Mutable(pitem)),
            None => unreachable!(),
        }
    }
    let n_nodes: usize = 1; // (node merging has its own obligation: c07_valueless_responses_*)
    let from = SocketAddrV4::new(kani::any::<u32>().into(), kani::any());
    let signed_version: bool = kani::any();
    let m = msg(TID, false, if signed_version { Some(crate::core::VERSION) } else { None },
        MessageType::Response(ResponseSpecific::GetMutable(GetMutableResponseArguments {
            responder_id: id1(RESPONDER), token: Box::new([1, 2, 3, 4]), nodes: listed_nodes(n_nodes), v: Box::new([v0, 9]), k, seq, sig: [0x22; 64],
        })));
    let r = c.handle_response(from, m);
    let authentic = target_ok && sig_ok;
    assert!(r.is_some() == authentic, "C02: a mutable item is yielded iff its key hashes (with the requested salt) to the requested target and its signature verifies");
    assert!(unsafe { mstub::FDM_CALLS } == 1 && unsafe { mstub::FDM_TARGET0 } == 0x10, "C02: the item is checked against the QUERY's target");
    if let Some((t, Response::Mutable(item))) = &r {
        assert!(t.as_bytes()[0] == 0x10 && item.target().as_bytes()[0] == 0x10, "yielded under the requested target");
        assert!(item.key()[0] == k0 && item.seq() == seq && item.value().len() == 2 && item.value()[0] == v0, "C02/C16: the yielded item is exactly what the responder sent (no authentic item is lost or altered)");
        assert!((item.salt().map(|s| s.len()) == Some(2)) == with_salt, "C02: the yielded item carries the requested salt");
    } else {
        assert!(r.is_none(), "C02: nothing else is ever yielded for a get_mutable response");
    }
    assert!(responses_recorded(&c, &target) == (if prior { 1 } else { 0 }) + (if authentic { 1 } else { 0 }), "only authentic items are remembered for later callers");
    // C07: every listed node becomes a candidate, the responder (it sent a token) a responding node
    assert!(unsafe { CAND_CALLS } == n_nodes as u32 + 1 && unsafe { RESPONDER_WITH_TOKEN } == 1, "C07: every node listed in a response is offered to the lookup's candidate list; the responder is recorded with its token");
    // C14/C13: an expected response (re-)admits the responder to the routing table(s)
    assert!(unsafe { RT_ADD_CALLS } == if r.is_some() { 0 } else { 1 + if signed_version { 1 } else { 0 } });
    if r.is_none() {
        assert!(unsafe { RT_ADD_ID0 } == RESPONDER && unsafe { RT_ADD_IP } == from.ip().to_bits(), "C14: the responder is (re-)added with the address it answered from");
    }
    kani::cover!(r.is_some() && with_salt);
    kani::cover!(r.is_none() && prior && prior_same_seq && sig_ok, "a replay of an already seen (seq, signature) around a key that does not belong to the target is still dropped");
    kani::cover!(r.is_none() && sig_ok, "validly signed by a key that does not belong to the target: dropped");
    kani::cover!(r.is_none() && target_ok, "corrupted signature: dropped");
    core::mem::forget(r);
    core::mem::forget(c);
}
}

// =============================================================================================
// get_immutable: yielded iff hash(v) == the QUERY's target
// =============================================================================================
resp_harness! {
unwind 5;
fn c02_immutable_response_yielded_iff_hash_is_the_target() {
    let target = id1(0x10);
    let mut c = core(true);
    install_lookup(&mut c, 3, target, None);
    let ok: bool = kani::any();
    unsafe { IMM_OK = ok };
    let v0: u8 = kani::any();
    let from = SocketAddrV4::new(kani::any::<u32>().into(), kani::any());
    let m = msg(TID, false, None, MessageType::Response(ResponseSpecific::GetImmutable(GetImmutableResponseArguments {
        responder_id: id1(RESPONDER), token: Box::new([1]), nodes: listed_nodes(1), v: Box::new([v0, 9, 9]),
    })));
    let r = c.handle_response(from, m);
    assert!(r.is_some() == ok, "C02: an immutable value is yielded iff its BEP44 hash is the requested target");
    assert!(unsafe { IMM_TARGET0 } == 0x10, "C02: the hash is compared with the QUERY's target");
    if let Some((t, Response::Immutable(v))) = &r {
        assert!(t.as_bytes()[0] == 0x10 && v.len() == 3 && v[0] == v0);
    } else {
        assert!(r.is_none());
    }
    assert!(responses_recorded(&c, &target) == if ok { 1 } else { 0 });
    assert!(unsafe { CAND_CALLS } == 2);
    kani::cover!(ok);
    kani::cover!(!ok);
    core::mem::forget(r);
    core::mem::forget(c);
}
}

// =============================================================================================
// get_signed_peers: yielded iff EVERY announcement verifies against the QUERY's info_hash
// =============================================================================================
resp_harness! {
unwind 5;
fn c02_signed_peers_yielded_iff_every_announcement_verifies() {
    let target = id1(0x10);
    let mut c = core(true);
    install_lookup(&mut c, 2, target, None);
    // two announcements, each with its own verdict: all four valid/invalid mixes
    let ok1: bool = kani::any();
    let ok2: bool = kani::any();
    unsafe {
        astub::ANN_SIG_OK = ok1;
        astub::ANN_SIG_OK2 = ok2;
    }
    let n: usize = 2;
    let ok = ok1 && ok2;
    let t0: u64 = kani::any();
    let peers: Vec<([u8; 32], u64, [u8; 64])> = vec![([1; 32], t0, [2; 64]), ([3; 32], 7, [4; 64])];
    let from = SocketAddrV4::new(kani::any::<u32>().into(), kani::any());
    let m = msg(TID, false, Some(crate::core::VERSION), MessageType::Response(ResponseSpecific::GetSignedPeers(GetSignedPeersResponseArguments {
        responder_id: id1(RESPONDER), token: Box::new([1]), nodes: None, peers,
    })));
    let r = c.handle_response(from, m);
    let all_ok = ok || n == 0;
    assert!(r.is_some() == all_ok, "C02: signed peers are yielded iff every announcement's signature over (info_hash, timestamp) verifies");
    if n > 0 {
        assert!(unsafe { astub::ANN_HASH0 } == 0x10, "C02: each announcement is verified against the QUERY's info_hash");
    }
    if let Some((t, Response::SignedPeers(ps))) = &r {
        assert!(t.as_bytes()[0] == 0x10 && ps.len() == n);
        if n > 0 {
            assert!(ps[0].timestamp() == t0 && ps[0].key()[0] == 1 && ps[0].signature()[0] == 2, "yielded exactly as sent");
        }
    } else {
        assert!(r.is_none());
        assert!(unsafe { RT_ADD_CALLS } == 0, "a responder that sent a forged announcement is not admitted to the routing table");
    }
    assert!(responses_recorded(&c, &target) == if all_ok { 1 } else { 0 });
    kani::cover!(ok);
    kani::cover!(ok1 && !ok2, "valid first, forged second: nothing is yielded");
    kani::cover!(!ok1 && ok2);
    core::mem::forget(r);
    core::mem::forget(c);
}
}

// =============================================================================================
// responses that carry no value: nodes are still merged, the responder is admitted, nothing is yielded
// =============================================================================================
/// one value-less response of a given kind (concrete per harness: merging four large enum
/// variants under a symbolic kind exhausted 12 GB) carrying `n_nodes` listed nodes
fn valueless_case(lookup_kind: u8, mt: MessageType, n_nodes: u32, has_token: bool) {
    let target = id1(0x10);
    let mut c = core(true);
    install_lookup(&mut c, lookup_kind, target, None);
    let from = SocketAddrV4::new(kani::any::<u32>().into(), kani::any());
    let signed_version: bool = kani::any();
    let ip_vote: bool = kani::any();
    let mut m = msg(TID, false, if signed_version { Some(crate::core::VERSION) } else { None }, mt);
    let voted = SocketAddrV4::new(9u32.into(), 9);
    if ip_vote {
        m.requester_ip = Some(voted);
    }
    let r = c.handle_response(from, m);
    assert!(r.is_none(), "C02: a response without a value yields nothing");
    assert!(unsafe { CAND_CALLS } == n_nodes + (if has_token { 1 } else { 0 }),
        "C07: every node listed in an answer becomes a candidate of the lookup that asked; a responder that sent a token becomes a responding node");
    assert!(unsafe { RT_ADD_CALLS } == 1 + if signed_version { 1 } else { 0 }, "C14/C13: the responder of an expected response is (re-)added to the routing table, and to the signed-peers table if its version supports it");
    assert!(unsafe { RT_ADD_ID0 } == RESPONDER && unsafe { RT_ADD_IP } == from.ip().to_bits(), "C14: ... with the address it answered from");
    let votes = match c.iterative_queries.a.as_ref() { Some(e) => iq::votes_for(&e.1, &voted), None => 99 };
    assert!(votes == if ip_vote { 1 } else { 0 }, "C18: the address the responder reports is counted as one vote");
    kani::cover!(signed_version && ip_vote);
    core::mem::forget(c);
}

resp_harness! {
unwind 5;
fn c07_find_node_response_merges_every_listed_node() {
    valueless_case(0, MessageType::Response(ResponseSpecific::FindNode(FindNodeResponseArguments { responder_id: id1(RESPONDER), nodes: listed_nodes(2).unwrap_or(Box::new([])) })), 2, false)
}
}
resp_harness! {
unwind 5;
fn c07_no_values_response_merges_nodes_and_records_the_responder() {
    valueless_case(3, MessageType::Response(ResponseSpecific::NoValues(NoValuesResponseArguments { responder_id: id1(RESPONDER), token: Box::new([1]), nodes: listed_nodes(2) })), 2, true)
}
}
resp_harness! {
unwind 5;
fn c07_no_more_recent_value_response_merges_nodes() {
    valueless_case(3, MessageType::Response(ResponseSpecific::NoMoreRecentValue(NoMoreRecentValueResponseArguments { responder_id: id1(RESPONDER), token: Box::new([1]), nodes: listed_nodes(1), seq: kani::any() })), 1, true)
}
}
resp_harness! {
unwind 5;
fn c14_ping_response_refreshes_the_responder() {
    valueless_case(3, MessageType::Response(ResponseSpecific::Ping(PingResponseArguments { responder_id: id1(RESPONDER) })), 0, false)
}
}

// =============================================================================================
// responses nobody is waiting for, and read-only responders: no effect at all
// =============================================================================================
fn read_only_or_foreign_case(mt: MessageType) -> (bool, bool) {
    let target = id1(0x10);
    let mut c = core(true);
    install_lookup(&mut c, 3, target, None);
    let ro: bool = kani::any();
    let tid: u32 = kani::any();
    kani::assume(ro || tid != TID);
    unsafe {
        mstub::TARGET_MATCHES_KEY = true;
        mstub::SIG_OK = true;
        IMM_OK = true;
    }
    let from = SocketAddrV4::new(kani::any::<u32>().into(), kani::any());
    let r = c.handle_response(from, msg(tid, ro, Some(crate::core::VERSION), mt));
    assert!(r.is_none(), "C02/C09/C18: a response flagged read-only, or one whose transaction id no lookup owns, yields nothing");
    assert!(unsafe { CAND_CALLS } == 0 && unsafe { RT_ADD_CALLS } == 0 && unsafe { mstub::FDM_CALLS } == 0, "C09/C18: ... and has no effect on candidates, routing tables or anything else");
    assert!(responses_recorded(&c, &target) == 0);
    core::mem::forget(c);
    (ro, tid == TID)
}

resp_harness! {
unwind 5;
fn c02_read_only_or_foreign_responses_yield_nothing() {
    let (ro, ours) = read_only_or_foreign_case(MessageType::Response(ResponseSpecific::GetMutable(GetMutableResponseArguments {
        responder_id: id1(RESPONDER), token: Box::new([1]), nodes: listed_nodes(1), v: Box::new([1]), k: [1; 32], seq: 1, sig: [2; 64] })));
    kani::cover!(ro && ours, "read-only reply to our own request");
    kani::cover!(!ro && !ours, "authentic-looking item under a transaction id nobody owns");
}
}

resp_harness! {
unwind 5;
fn c05_error_replies_to_lookups_yield_nothing() {
    let code: i32 = kani::any();
    let (ro, ours) = read_only_or_foreign_case(MessageType::Error(crate::common::ErrorSpecific { code, description: String::new() }));
    kani::cover!(!ro && !ours);
    kani::cover!(ro && ours);
}
}

// =============================================================================================
// replies to a put: acknowledgements and errors reach the put's tallies exactly once
// =============================================================================================
fn stub_put_inflight(_q: &PutQuery, tid: u32) -> bool {
    tid == TID
}

/// (PutQuery::success / error run for real here: success carries a Kani contract and cannot be
/// stubbed; their effect is read back through the put's counters. One harness per reply kind.)
fn put_reply_case(is_ack: bool) {
    use crate::core::put_query::verif_kani::{stored_at_of, tallies, tally_of};
    let mut c = core(true);
    c.put_queries = HashMap::new();
    c.iterative_queries = HashMap::new();
    let target = id1(0x10);
    c.put_queries.insert(target, PutQuery::new(crate::common::PutRequestSpecific::PutImmutable(crate::common::PutImmutableRequestArguments { target, v: Box::new([1]) }), None));
    let tid: u32 = kani::any();
    let code: i32 = kani::any();
    let mt = if is_ack {
        MessageType::Response(ResponseSpecific::Ping(PingResponseArguments { responder_id: id1(RESPONDER) }))
    } else {
        MessageType::Error(crate::common::ErrorSpecific { code, description: String::new() })
    };
    let ro: bool = kani::any();
    let r = c.handle_response(SocketAddrV4::new(1u32.into(), 1), msg(tid, ro, None, mt));
    assert!(r.is_none());
    let ours = tid == TID && !ro;
    let (acks, errs, this) = match c.put_queries.a.as_ref() {
        Some(e) => (stored_at_of(&e.1), tallies(&e.1), tally_of(&e.1, code)),
        None => (99, 99, 99),
    };
    assert!(acks == if ours && is_ack { 1 } else { 0 }, "C08: an acknowledgement of one of the put's store requests is counted exactly once; nothing else counts as one");
    assert!(errs == if ours && !is_ack { 1 } else { 0 }, "C08: an error reply is tallied exactly once");
    if ours && !is_ack {
        assert!(this == 1, "C08: ... under its own code");
    }
    kani::cover!(ours);
    kani::cover!(!ours && tid == TID, "a read-only reply is not counted");
    core::mem::forget(c);
}

macro_rules! put_reply_harness {
    ($name:ident, $ack:expr) => {
        #[kani::proof]
        #[kani::unwind(5)]
        #[kani::stub(std::time::Instant::now, clock::mock_now)]
        #[kani::stub(getrandom::fill, fill_const)]
        #[kani::stub(PutQuery::inflight, stub_put_inflight)]
        #[kani::stub(ClosestNodes::add, stub_closest_add)]
        #[kani::stub(RoutingTable::add, stub_rt_add)]
        // (reachability is static: without these three, ed25519-dalek and SHA-1 are linked in and
        // goto-instrument alone exceeds 12 GB)
        #[kani::stub(crate::common::MutableItem::from_dht_message, mstub::stub_from_dht_message)]
        #[kani::stub(crate::common::SignedAnnounce::from_dht_response, astub::stub_from_dht_response)]
        #[kani::stub(crate::common::validate_immutable, stub_validate_immutable)]
        fn $name() {
            put_reply_case($ack)
        }
    };
}
put_reply_harness!(c08_an_acknowledgement_of_a_store_request_is_counted_exactly_once, true);
put_reply_harness!(c08_an_error_reply_to_a_store_request_is_tallied_exactly_once, false);
