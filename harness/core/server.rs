// Kani harness module for src/core/server.rs (child `verif_kani` of `core::server`).
// Properties C03 (only authorised, valid writes are stored; refused writes change nothing; the
// request filter is consulted first) and C04 (seq/cas rules; get returns the last accepted item).
//
// Shape of every harness: ONE call of the real Server::handle_request on a directly constructed
// pre-state; ids symbolic in their first byte; verdicts of the callees that CBMC cannot execute
// (token CRC: own contract under C15; ed25519 / SHA-1: layer A) are ghost booleans chosen
// nondeterministically, so every combination of verdicts is covered.
use super::*;
use crate::common::verif_kani::mutable as mstub;
use crate::common::verif_kani::signed_announce as astub;
use crate::common::{Node, ID_SIZE};

mod spec {
    include!("/verif/spec/server.rs");
}

// ---- ghost state -----------------------------------------------------------------------------
static mut TOKEN_OK: bool = true;
static mut TOKEN_CALLS: u32 = 0;
static mut TOKEN_IP: u32 = 0; // ip the token was validated for
static mut TOKEN_B0: u8 = 0; // first byte of the token presented to validate
static mut IMM_OK: bool = true;
static mut IMM_TARGET0: u8 = 0;
static mut FILTER_ALLOW: bool = true;
static mut ROTATE_DUE: bool = false;
static mut ROTATE_CALLS: u32 = 0;

fn stub_validate(_t: &mut Tokens, address: SocketAddrV4, token: &[u8]) -> bool {
    unsafe {
        TOKEN_CALLS += 1;
        TOKEN_IP = address.ip().to_bits();
        TOKEN_B0 = if token.is_empty() { 0 } else { token[0] };
        TOKEN_OK
    }
}
fn stub_generate_token(_t: &mut Tokens, _address: SocketAddrV4) -> [u8; 4] {
    [9, 9, 9, 9]
}
fn stub_should_update(_t: &Tokens) -> bool {
    unsafe { ROTATE_DUE }
}
fn stub_rotate(_t: &mut Tokens) {
    unsafe { ROTATE_CALLS += 1 }
}
fn stub_validate_immutable(_v: &[u8], target: Id) -> bool {
    unsafe {
        IMM_TARGET0 = target.as_bytes()[0];
        IMM_OK
    }
}
fn stub_closest(_rt: &RoutingTable, _target: Id) -> Box<[Node]> {
    Box::new([])
}
fn stub_random_peers(_s: &mut PeersStore, _h: &Id) -> Option<Vec<SocketAddrV4>> {
    None
}
fn stub_random_signed_peers(_s: &mut SignedPeersStore, _h: &Id) -> Option<Vec<SignedAnnounce>> {
    None
}

#[derive(Debug, Clone)]
struct GhostFilter;
impl RequestFilter for GhostFilter {
    fn allow_request(&self, _request: &RequestSpecific, _from: SocketAddrV4) -> bool {
        unsafe { FILTER_ALLOW }
    }
}

fn id1(b: u8) -> Id {
    let mut x = [7u8; ID_SIZE];
    x[0] = b;
    Id::from(x)
}

fn nz(n: usize) -> NonZeroUsize {
    NonZeroUsize::new(n).unwrap()
}

/// a server with empty stores of the given capacity (values) and 2x2 peer stores
fn server(cap: usize) -> Server {
    Server {
        tokens: crate::core::server::tokens::verif_kani::fixed_tokens(),
        peers: PeersStore::new(nz(2), nz(2)),
        signed_peers: SignedPeersStore::new(nz(2), nz(2)),
        immutable_values: LruCache::new(nz(cap)),
        mutable_values: LruCache::new(nz(cap)),
        filter: Box::new(GhostFilter),
    }
}

fn rt() -> RoutingTable {
    RoutingTable::new(id1(0xEE))
}

fn from_addr() -> SocketAddrV4 {
    SocketAddrV4::new(kani::any::<u32>().into(), kani::any())
}

fn reply_code(r: &Option<MessageType>) -> i32 {
    match r {
        Some(MessageType::Error(e)) => e.code,
        Some(MessageType::Response(ResponseSpecific::Ping(_))) => 0,
        Some(_) => -1,
        None => -2,
    }
}

fn put(token0: u8, t: PutRequestSpecific) -> RequestSpecific {
    RequestSpecific {
        requester_id: id1(0x33),
        request_type: RequestTypeSpecific::Put(PutRequest { token: Box::new([token0]), put_request_type: t }),
    }
}

/// (present, seq, key[0], sig[0], value len, value[0], salt len) of the item stored under `t`
fn mut_view(s: &Server, t: &Id) -> (bool, i64, u8, u8, usize, u8, usize) {
    match s.mutable_values.peek(t) {
        Some(i) => (
            true,
            i.seq(),
            i.key()[0],
            i.signature()[0],
            i.value().len(),
            if i.value().is_empty() { 0 } else { i.value()[0] },
            match i.salt() { Some(s) => s.len() + 1, None => 0 },
        ),
        None => (false, 0, 0, 0, 0, 0, 0),
    }
}

fn imm_view(s: &Server, t: &Id) -> (bool, usize, u8) {
    match s.immutable_values.peek(t) {
        Some(v) => (true, v.len(), if v.is_empty() { 0 } else { v[0] }),
        None => (false, 0, 0),
    }
}

fn peer_view(s: &Server, h: &Id, who: &Id) -> (bool, u32, u16) {
    peers::verif_kani::view(&s.peers, h, who)
}

fn signed_view(s: &Server, h: &Id, k: &[u8; 32]) -> (bool, u64, u8) {
    signed_peers::verif_kani::view(&s.signed_peers, h, k)
}

fn sizes(s: &Server) -> (usize, usize, usize, usize) {
    (s.mutable_values.len(), s.immutable_values.len(), peers::verif_kani::info_hashes(&s.peers), signed_peers::verif_kani::info_hashes(&s.signed_peers))
}

fn boxed(n: usize, b0: u8) -> Box<[u8]> {
    let mut v = vec![0u8; n];
    if n > 0 {
        v[0] = b0;
    }
    v.into_boxed_slice()
}

// =============================================================================================
// put of a mutable item (C03 + C04)
// =============================================================================================

/// One `put` of a mutable item with value length VLEN and salt SALT (usize::MAX = no salt) on a
/// store that holds (or not) a previous item for the same target and an unrelated item.
fn put_mutable_case(vlen: usize, salt_len: Option<usize>, narrow: bool) -> (i32, bool, bool) {
    let tb: u8 = 0x10;
    let target = id1(tb);
    let other = id1(tb ^ 0x80);
    let mut s = server(3);
    let has_prev: bool = kani::any();
    let prev_seq: i64 = kani::any();
    if has_prev {
        s.mutable_values.put(target, mstub::item(target, [0x11; 32], prev_seq, boxed(1, 0xAA), [0x22; 64], None));
    }
    s.mutable_values.put(other, mstub::item(other, [0x55; 32], 5, boxed(1, 0xBB), [0x66; 64], None));

    let token_ok: bool = kani::any();
    let target_ok: bool = kani::any();
    let sig_ok: bool = kani::any();
    unsafe {
        TOKEN_OK = token_ok;
        mstub::TARGET_MATCHES_KEY = target_ok;
        mstub::SIG_OK = sig_ok;
    }
    let seq: i64 = kani::any();
    let cas: Option<i64> = if narrow { None } else { kani::any() };
    let v0: u8 = kani::any();
    // the request may carry the very signature of the stored item (a replay of (seq, sig) around
    // another value or key), or a different one
    let same_sig: bool = if narrow { false } else { kani::any() };
    let req_sig: [u8; 64] = if same_sig { [0x22; 64] } else { [0x88; 64] };
    let from = from_addr();
    let before_other = mut_view(&s, &other);
    let before_target = mut_view(&s, &target);
    let before_imm = imm_view(&s, &other);
    let before_sizes = sizes(&s);

    let req = put(
        0x42,
        PutRequestSpecific::PutMutable(PutMutableRequestArguments {
            target,
            v: boxed(vlen, v0),
            k: [0x77; 32],
            seq,
            sig: req_sig,
            salt: salt_len.map(|n| boxed(n, 0x5A)),
            cas,
        }),
    );
    let table = rt();
    let reply = s.handle_request(&table, &table, from, req);
    let code = reply_code(&reply);
    core::mem::forget(reply);

    let sl = salt_len.unwrap_or(0);
    let item_ok = target_ok && sig_ok;
    let (has_cas, casv) = match cas { Some(c) => (true, c), None => (false, 0) };
    let accept = spec::put_mutable_accept(token_ok, vlen, sl, has_prev, prev_seq, seq, has_cas, casv, item_ok);

    // C03/C04: accepted exactly when the statement says so; a refusal carries the code of a reason that applies
    assert!((code == 0) == accept, "C03/C04: put(mutable) accepted <=> token, sizes, target, signature, cas and seq rules all hold");
    assert!(code == 0 || spec::put_mutable_code_allowed(code, token_ok, vlen, sl, has_prev, prev_seq, seq, has_cas, casv, item_ok),
        "C03/C04: a refused put(mutable) is answered with the BEP error code of a reason that applies");
    // C04: the named single-reason cases
    if token_ok && vlen <= 1000 && sl <= 64 && item_ok && has_prev {
        if has_cas && casv != prev_seq && seq >= prev_seq {
            assert!(code == 301, "C04: cas differs from the stored seq => 301");
        }
        if seq < prev_seq && (!has_cas || casv == prev_seq) {
            assert!(code == 302, "C04: seq lower than the stored seq => 302");
        }
    }
    // the token was checked against the sender's address and is the token of the request
    assert!(unsafe { TOKEN_CALLS } >= 1 && unsafe { TOKEN_IP } == from.ip().to_bits() && unsafe { TOKEN_B0 } == 0x42,
        "C03: the write token is validated for the sender's IP");
    // the item was checked against the target of the request
    if code == 0 {
        assert!(unsafe { mstub::FDM_CALLS } == 1 && unsafe { mstub::FDM_TARGET0 } == tb, "C03: signature/target check ran on the request's target");
    }

    // state after the call
    let after_target = mut_view(&s, &target);
    if accept {
        let want_salt = match salt_len { Some(n) => n + 1, None => 0 };
        assert!(after_target == (true, seq, 0x77, req_sig[0], vlen, if vlen == 0 { 0 } else { v0 }, want_salt),
            "C03/C04: an accepted put stores exactly the item of the request under its target");
        assert!(sizes(&s).0 == before_sizes.0 + if has_prev { 0 } else { 1 });
    } else {
        assert!(after_target == before_target, "C03/C04: a refused put leaves the stored item unchanged");
        assert!(sizes(&s).0 == before_sizes.0, "C03: a refused put stores nothing");
    }
    assert!(after_target.0 == spec::put_mutable_next_has(accept, has_prev));
    if after_target.0 {
        assert!(after_target.1 == spec::put_mutable_next_seq(accept, prev_seq, seq), "C04: stored seq follows the step specification");
        assert!(!has_prev || after_target.1 >= prev_seq, "C04: the stored seq never decreases");
    }
    // frame: everything else is untouched
    assert!(mut_view(&s, &other) == before_other, "C03: other mutable items untouched");
    assert!(imm_view(&s, &other) == before_imm, "C03: immutable store untouched by a mutable put");
    let after_sizes = sizes(&s);
    assert!(after_sizes.1 == before_sizes.1 && after_sizes.2 == before_sizes.2 && after_sizes.3 == before_sizes.3,
        "C03: the other stores are untouched by a mutable put");

    core::mem::forget(s);
    core::mem::forget(table);
    (code, has_prev, token_ok)
}

macro_rules! server_stubs {
    ($(#[$m:meta])* fn $name:ident() $body:block) => {
        server_stubs! { unwind 22; $(#[$m])* fn $name() $body }
    };
    (unwind $u:literal; $(#[$m:meta])* fn $name:ident() $body:block) => {
        #[kani::proof]
        #[kani::unwind($u)]
        #[kani::stub(Tokens::validate, stub_validate)]
        #[kani::stub(Tokens::generate_token, stub_generate_token)]
        #[kani::stub(Tokens::should_update, stub_should_update)]
        #[kani::stub(Tokens::rotate, stub_rotate)]
        #[kani::stub(crate::common::MutableItem::from_dht_message, mstub::stub_from_dht_message)]
        #[kani::stub(crate::common::SignedAnnounce::from_dht_request, astub::stub_from_dht_request)]
        #[kani::stub(crate::common::validate_immutable, stub_validate_immutable)]
        #[kani::stub(crate::common::RoutingTable::closest, stub_closest)]
        #[kani::stub(PeersStore::get_random_peers, stub_random_peers)]
        #[kani::stub(SignedPeersStore::get_random_peers, stub_random_signed_peers)]
        $(#[$m])*
        fn $name() $body
    };
}

server_stubs! {
unwind 66;
fn c03_put_mutable_all_verdicts_seq_cas() {
    let (code, has_prev, token_ok) = put_mutable_case(0, None, false);
    kani::cover!(code == 0 && has_prev, "accepted over an existing item");
    kani::cover!(code == 301, "301 reachable");
    kani::cover!(code == 302, "302 reachable");
    kani::cover!(code == 206 && token_ok, "206 reachable");
}
}
server_stubs! {
fn c03_put_mutable_value_1000_salt_64_accepted() {
    let (code, has_prev, _) = put_mutable_case(1000, Some(64), true);
    kani::cover!(code == 0 && has_prev, "1000/64 accepted over an existing item");
    kani::cover!(code == 0 && !has_prev, "1000/64 accepted on an empty slot");
}
}
server_stubs! {
fn c03_put_mutable_value_1001_refused_205() {
    let (code, _, token_ok) = put_mutable_case(1001, None, true);
    assert!(code != 0);
    kani::cover!(code == 205, "205 reachable");
    kani::cover!(code == 203 && !token_ok, "203 reachable");
}
}
server_stubs! {
fn c03_put_mutable_salt_65_refused_207() {
    let (code, _, token_ok) = put_mutable_case(1, Some(65), true);
    assert!(code != 0);
    kani::cover!(code == 207, "207 reachable");
    kani::cover!(code == 203 && !token_ok, "203 reachable");
}
}

// =============================================================================================
// put of an immutable value (C03)
// =============================================================================================
fn put_immutable_case(vlen: usize) -> (i32, bool) {
    let tb: u8 = kani::any();
    let target = id1(tb);
    let other = id1(tb ^ 0x80);
    let mut s = server(3);
    let has_prev: bool = kani::any();
    if has_prev {
        s.immutable_values.put(target, boxed(1, 0xAA));
    }
    s.immutable_values.put(other, boxed(1, 0xCC));
    s.mutable_values.put(other, mstub::item(other, [0x55; 32], 5, boxed(1, 0xBB), [0x66; 64], None));
    let token_ok: bool = kani::any();
    let hash_ok: bool = kani::any();
    unsafe {
        TOKEN_OK = token_ok;
        IMM_OK = hash_ok;
    }
    let v0: u8 = kani::any();
    let from = from_addr();
    let before_target = imm_view(&s, &target);
    let before_other = imm_view(&s, &other);
    let before_mut = mut_view(&s, &other);
    let before_sizes = sizes(&s);
    let req = put(0x42, PutRequestSpecific::PutImmutable(PutImmutableRequestArguments { target, v: boxed(vlen, v0) }));
    let table = rt();
    let reply = s.handle_request(&table, &table, from, req);
    let code = reply_code(&reply);
    core::mem::forget(reply);

    let accept = spec::put_immutable_accept(token_ok, vlen, hash_ok);
    assert!((code == 0) == accept, "C03: put(immutable) accepted <=> valid token, size <= 1000, hash(v) == target");
    assert!(code == 0 || spec::put_immutable_code_allowed(code, token_ok, vlen, hash_ok), "C03: refused immutable put answered with 203/205");
    assert!(unsafe { TOKEN_CALLS } >= 1 && unsafe { TOKEN_IP } == from.ip().to_bits() && unsafe { TOKEN_B0 } == 0x42);
    if accept {
        assert!(unsafe { IMM_TARGET0 } == tb, "C03: the hash was compared with the request's target");
        assert!(imm_view(&s, &target) == (true, vlen, if vlen == 0 { 0 } else { v0 }), "C03: accepted value stored under its target");
    } else {
        assert!(imm_view(&s, &target) == before_target, "C03: refused immutable put changes nothing");
        assert!(sizes(&s) == before_sizes);
    }
    assert!(imm_view(&s, &other) == before_other);
    assert!(mut_view(&s, &other) == before_mut);
    let a = sizes(&s);
    assert!(a.0 == before_sizes.0 && a.2 == before_sizes.2 && a.3 == before_sizes.3);
    core::mem::forget(s);
    core::mem::forget(table);
    (code, token_ok)
}

server_stubs! {
fn c03_put_immutable_all_verdicts() {
    let (code, token_ok) = put_immutable_case(1);
    kani::cover!(code == 0);
    kani::cover!(code == 203 && token_ok, "hash mismatch reachable");
    kani::cover!(code == 203 && !token_ok, "bad token reachable");
}
}
server_stubs! {
fn c03_put_immutable_value_1000_accepted() {
    let (code, _) = put_immutable_case(1000);
    kani::cover!(code == 0, "1000 bytes accepted");
}
}
server_stubs! {
fn c03_put_immutable_value_1001_refused_205() {
    let (code, token_ok) = put_immutable_case(1001);
    assert!(code != 0);
    kani::cover!(code == 205, "205 reachable");
    kani::cover!(code == 203 && !token_ok, "203 reachable");
}
}

// =============================================================================================
// announce_peer (C03): recorded as the sender's own IP with the explicit or implied port
// =============================================================================================
server_stubs! {
fn c03_announce_peer_records_senders_ip_and_port() {
    let hb: u8 = kani::any();
    let info_hash = id1(hb);
    let mut s = server(3);
    let token_ok: bool = kani::any();
    unsafe { TOKEN_OK = token_ok; }
    let from = from_addr();
    let port: u16 = kani::any();
    let implied: Option<bool> = kani::any();
    // a previous announcement by the same requester under the same info_hash (or not)
    let had: bool = kani::any();
    if had {
        s.peers.add_peer(info_hash, (&id1(0x33), SocketAddrV4::new(1u32.into(), 1)));
    }
    let before = peer_view(&s, &info_hash, &id1(0x33));
    let before_sizes = sizes(&s);
    let req = put(0x42, PutRequestSpecific::AnnouncePeer(AnnouncePeerRequestArguments { info_hash, port, implied_port: implied }));
    let table = rt();
    let reply = s.handle_request(&table, &table, from, req);
    let code = reply_code(&reply);
    core::mem::forget(reply);
    assert!((code == 0) == token_ok, "C03: announce_peer accepted <=> valid token");
    assert!(code == 0 || code == 203);
    assert!(unsafe { TOKEN_CALLS } >= 1 && unsafe { TOKEN_IP } == from.ip().to_bits() && unsafe { TOKEN_B0 } == 0x42);
    let after = peer_view(&s, &info_hash, &id1(0x33));
    if token_ok {
        let want_port = if implied == Some(true) { from.port() } else { port };
        assert!(after == (true, from.ip().to_bits(), want_port), "C03: recorded endpoint = sender's IP, explicit or implied port");
    } else {
        assert!(after == before, "C03: refused announce changes nothing");
        assert!(sizes(&s) == before_sizes);
    }
    let a = sizes(&s);
    assert!(a.0 == 0 && a.1 == 0 && a.3 == 0);
    kani::cover!(code == 0 && implied == Some(true));
    kani::cover!(code == 0 && implied == Some(false));
    kani::cover!(code == 0 && implied.is_none());
    kani::cover!(code == 203);
    core::mem::forget(s);
    core::mem::forget(table);
}
}

// =============================================================================================
// announce_signed_peer (C03)
// =============================================================================================
server_stubs! {
unwind 66;
fn c03_announce_signed_peer_needs_token_signature_and_fresh_timestamp() {
    let hb: u8 = kani::any();
    let info_hash = id1(hb);
    let mut s = server(3);
    let token_ok: bool = kani::any();
    let sig_ok: bool = kani::any();
    let time_ok: bool = kani::any();
    unsafe {
        TOKEN_OK = token_ok;
        astub::ANN_SIG_OK = sig_ok;
        astub::ANN_TIME_OK = time_ok;
    }
    let from = from_addr();
    let t: u64 = kani::any();
    let k = [0x77u8; 32];
    let had: bool = kani::any();
    if had {
        s.signed_peers.add_peer(info_hash, SignedAnnounce { key: k, timestamp: 1, signature: [1u8; 64] });
    }
    let before = signed_view(&s, &info_hash, &k);
    let before_sizes = sizes(&s);
    let req = put(0x42, PutRequestSpecific::AnnounceSignedPeer(AnnounceSignedPeerRequestArguments { info_hash, t, k, sig: [0x88; 64] }));
    let table = rt();
    let reply = s.handle_request(&table, &table, from, req);
    let code = reply_code(&reply);
    core::mem::forget(reply);
    let accept = token_ok && sig_ok && time_ok;
    assert!((code == 0) == accept, "C03: signed announce accepted <=> valid token, valid signature, timestamp within 45 s");
    assert!(code == 0 || code == 203 || code == 205 || code == 206 || code == 207);
    assert!(unsafe { TOKEN_CALLS } >= 1 && unsafe { TOKEN_IP } == from.ip().to_bits() && unsafe { TOKEN_B0 } == 0x42);
    let after = signed_view(&s, &info_hash, &k);
    if accept {
        assert!(unsafe { astub::ANN_HASH0 } == hb, "C03: the signature was checked against the request's info_hash");
        assert!(after == (true, t, 0x88), "C03: accepted announcement stored as sent");
    } else {
        assert!(after == before, "C03: refused signed announce changes nothing");
        assert!(sizes(&s) == before_sizes);
    }
    let a = sizes(&s);
    assert!(a.0 == 0 && a.1 == 0 && a.2 == 0);
    kani::cover!(code == 0 && had);
    kani::cover!(code == 0 && !had);
    kani::cover!(code != 0 && token_ok && sig_ok, "stale timestamp refused");
    kani::cover!(code != 0 && token_ok && time_ok, "bad signature refused");
    core::mem::forget(s);
    core::mem::forget(table);
}
}

// =============================================================================================
// request filter (C03): vetoed requests get no reply and change nothing
// =============================================================================================
server_stubs! {
fn c03_filter_veto_no_reply_no_change() {
    let tb: u8 = kani::any();
    let target = id1(tb);
    let mut s = server(3);
    s.mutable_values.put(target, mstub::item(target, [0x11; 32], 4, boxed(1, 0xAA), [0x22; 64], None));
    s.immutable_values.put(target, boxed(1, 0xCC));
    unsafe {
        FILTER_ALLOW = false;
        TOKEN_OK = kani::any();
        ROTATE_DUE = kani::any();
    }
    let before_m = mut_view(&s, &target);
    let before_i = imm_view(&s, &target);
    let before_sizes = sizes(&s);
    let kind: u8 = kani::any();
    kani::assume(kind < 9);
    let rtype = match kind {
        0 => RequestTypeSpecific::Ping,
        1 => RequestTypeSpecific::FindNode(FindNodeRequestArguments { target }),
        2 => RequestTypeSpecific::GetPeers(GetPeersRequestArguments { info_hash: target }),
        3 => RequestTypeSpecific::GetSignedPeers(GetPeersRequestArguments { info_hash: target }),
        4 => RequestTypeSpecific::GetValue(GetValueRequestArguments { target, seq: kani::any(), salt: None }),
        5 => RequestTypeSpecific::Put(PutRequest { token: Box::new([1]), put_request_type: PutRequestSpecific::AnnouncePeer(AnnouncePeerRequestArguments { info_hash: target, port: 1, implied_port: None }) }),
        6 => RequestTypeSpecific::Put(PutRequest { token: Box::new([1]), put_request_type: PutRequestSpecific::AnnounceSignedPeer(AnnounceSignedPeerRequestArguments { info_hash: target, t: 1, k: [1; 32], sig: [1; 64] }) }),
        7 => RequestTypeSpecific::Put(PutRequest { token: Box::new([1]), put_request_type: PutRequestSpecific::PutImmutable(PutImmutableRequestArguments { target, v: boxed(1, 1) }) }),
        _ => RequestTypeSpecific::Put(PutRequest { token: Box::new([1]), put_request_type: PutRequestSpecific::PutMutable(PutMutableRequestArguments { target, v: boxed(1, 1), k: [1; 32], seq: 9, sig: [1; 64], salt: None, cas: None }) }),
    };
    let table = rt();
    let reply = s.handle_request(&table, &table, from_addr(), RequestSpecific { requester_id: id1(0x33), request_type: rtype });
    assert!(reply.is_none(), "C03: a request vetoed by the filter gets no reply");
    assert!(mut_view(&s, &target) == before_m && imm_view(&s, &target) == before_i && sizes(&s) == before_sizes,
        "C03: a vetoed request changes nothing");
    assert!(unsafe { ROTATE_CALLS } == 0 && unsafe { TOKEN_CALLS } == 0, "C03: a vetoed request does not reach the token machinery");
    kani::cover!(kind == 8);
    kani::cover!(kind == 0);
    core::mem::forget(s);
    core::mem::forget(table);
}
}

// =============================================================================================
// get of a mutable item (C04)
// =============================================================================================
server_stubs! {
unwind 66;
fn c04_get_returns_last_accepted_item_or_its_seq_or_nothing() {
    let tb: u8 = kani::any();
    let target = id1(tb);
    let mut s = server(3);
    let has: bool = kani::any();
    let stored_seq: i64 = kani::any();
    let k0: u8 = kani::any();
    let s0: u8 = kani::any();
    let v0: u8 = kani::any();
    let mut key = [0x11u8; 32];
    key[0] = k0;
    let mut sig = [0x22u8; 64];
    sig[0] = s0;
    if has {
        s.mutable_values.put(target, mstub::item(target, key, stored_seq, boxed(2, v0), sig, None));
    }
    s.mutable_values.put(id1(tb ^ 0x80), mstub::item(id1(tb ^ 0x80), [0x55; 32], 5, boxed(1, 0xBB), [0x66; 64], None));
    let filter: Option<i64> = kani::any();
    let before = mut_view(&s, &target);
    let table = rt();
    let reply = s.handle_request(&table, &table, from_addr(),
        RequestSpecific { requester_id: id1(0x33), request_type: RequestTypeSpecific::GetValue(GetValueRequestArguments { target, seq: filter, salt: None }) });
    let (hf, fv) = match filter { Some(f) => (true, f), None => (false, 0) };
    let want = spec::get_mutable_kind(has, stored_seq, hf, fv);
    let got: u8 = match &reply {
        Some(MessageType::Response(ResponseSpecific::NoValues(_))) => 0,
        Some(MessageType::Response(ResponseSpecific::NoMoreRecentValue(a))) => {
            assert!(a.seq == stored_seq, "C04: NoMoreRecentValue carries the stored seq");
            1
        }
        Some(MessageType::Response(ResponseSpecific::GetMutable(a))) => {
            assert!(a.seq == stored_seq && a.k == key && a.sig == sig && a.v.len() == 2 && a.v[0] == v0 && a.v[1] == 0,
                "C04: get returns exactly the stored item");
            2
        }
        _ => 9,
    };
    core::mem::forget(reply);
    assert!(got == want, "C04: get = no values | stored seq only (filter >= stored seq) | the stored item");
    assert!(mut_view(&s, &target) == before, "C04: a get does not change the stored item");
    kani::cover!(got == 0);
    kani::cover!(got == 1);
    kani::cover!(got == 2 && hf);
    kani::cover!(got == 2 && !hf);
    core::mem::forget(s);
    core::mem::forget(table);
}
}

// =============================================================================================
// capacity: an accepted put at capacity evicts the least recently used item, never more (C04 "or it
// was evicted by the capacity bound"; C20 bounded store)
// =============================================================================================
server_stubs! {
fn c04_put_at_capacity_evicts_only_the_lru_item() {
    let cap: usize = if kani::any() { 1 } else { 2 };
    let mut s = server(cap);
    let a = id1(1);
    let b = id1(2);
    let c = id1(3);
    s.mutable_values.put(a, mstub::item(a, [0x11; 32], 4, boxed(1, 0xAA), [0x22; 64], None));
    if cap == 2 {
        s.mutable_values.put(b, mstub::item(b, [0x11; 32], 6, boxed(1, 0xAB), [0x22; 64], None));
    }
    unsafe {
        TOKEN_OK = true;
        mstub::TARGET_MATCHES_KEY = true;
        mstub::SIG_OK = true;
    }
    let before_b = mut_view(&s, &b);
    let seq: i64 = kani::any();
    let req = put(0x42, PutRequestSpecific::PutMutable(PutMutableRequestArguments { target: c, v: boxed(1, 7), k: [0x77; 32], seq, sig: [0x88; 64], salt: None, cas: kani::any() }));
    let table = rt();
    let reply = s.handle_request(&table, &table, from_addr(), req);
    let code = reply_code(&reply);
    core::mem::forget(reply);
    assert!(code == 0, "C04: nothing stored under the target => any seq and any cas accepted");
    assert!(mut_view(&s, &c) == (true, seq, 0x77, 0x88, 1, 7, 0));
    assert!(s.mutable_values.len() == cap, "C20: the store never exceeds its capacity");
    assert!(!mut_view(&s, &a).0, "the least recently used item is the one evicted");
    assert!(mut_view(&s, &b) == before_b, "other items survive an eviction unchanged");
    core::mem::forget(s);
    core::mem::forget(table);
}
}

// =============================================================================================
// C15: secrets are rotated lazily, before the request is handled, exactly when rotation is due
// =============================================================================================
server_stubs! {
fn c15_handle_request_rotates_lazily() {
    let mut s = server(3);
    let due: bool = kani::any();
    unsafe {
        ROTATE_DUE = due;
        FILTER_ALLOW = true;
        TOKEN_OK = true;
    }
    let kind: u8 = kani::any();
    kani::assume(kind < 2);
    let rtype = if kind == 0 {
        RequestTypeSpecific::Ping
    } else {
        RequestTypeSpecific::Put(PutRequest { token: Box::new([1]), put_request_type: PutRequestSpecific::AnnouncePeer(AnnouncePeerRequestArguments { info_hash: id1(1), port: 1, implied_port: None }) })
    };
    let table = rt();
    let reply = s.handle_request(&table, &table, from_addr(), RequestSpecific { requester_id: id1(0x33), request_type: rtype });
    assert!(reply.is_some());
    assert!(unsafe { ROTATE_CALLS } == if due { 1 } else { 0 }, "C15: the secrets are rotated exactly when rotation is due (more than 5 minutes since the last one), once, on the next request");
    if kind == 1 {
        assert!(unsafe { TOKEN_CALLS } == 1, "and the token of the request is validated after that rotation");
    }
    kani::cover!(due && kind == 1);
    kani::cover!(!due);
    core::mem::forget(reply);
    core::mem::forget(s);
    core::mem::forget(table);
}
}

// =============================================================================================
// C20 / C04: Server::new sizes every store as configured
// =============================================================================================
fn fill_const2(dest: &mut [u8]) -> Result<(), getrandom::Error> {
    dest.fill(3);
    Ok(())
}

#[kani::proof]
#[kani::unwind(4)]
#[kani::stub(std::time::Instant::now, clock2::mock_now)]
#[kani::stub(getrandom::fill, fill_const2)]
fn c20_server_new_sizes_every_store_as_configured() {
    let (h, p, i, m): (usize, usize, usize, usize) = (kani::any(), kani::any(), kani::any(), kani::any());
    kani::assume(h <= 5000 && p <= 5000 && i <= 5000 && m <= 5000);
    let s = Server::new(ServerSettings { max_info_hashes: h, max_peers_per_info_hash: p, max_immutable_values: i, max_mutable_values: m, filter: Box::new(GhostFilter) });
    let want = |x: usize, d: usize| if x == 0 { d } else { x };
    assert!(s.mutable_values.cap().get() == want(m, MAX_VALUES), "C20/C04: the mutable store holds at most max_mutable_values items");
    assert!(s.immutable_values.cap().get() == want(i, MAX_VALUES), "C20: the immutable store holds at most max_immutable_values items");
    assert!(peers::verif_kani::caps(&s.peers) == (want(h, MAX_INFO_HASHES), want(p, MAX_PEERS)), "C20: peers: (info hashes, peers per info hash) as configured");
    assert!(signed_peers::verif_kani::caps(&s.signed_peers) == (want(h, MAX_INFO_HASHES), want(p, MAX_PEERS)), "C20: signed peers: (info hashes, peers per info hash) as configured, not swapped");
    kani::cover!(h == 1 && p == 2);
    kani::cover!(m == 0);
    core::mem::forget(s);
}

mod clock2 {
    include!("/verif/harness/support.rs");
    pub use clock::mock_now;
}
