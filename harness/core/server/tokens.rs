// Kani harnesses for src/core/server/tokens.rs — child module `verif_kani`. Property C15.
use super::*;

include!("/verif/harness/support.rs");

mod spec {
    include!("/verif/spec/tokens.rs");
}

/// reference token: CRC32C over ip octets then the secret, init/xorout 0xFFFFFFFF, big-endian
fn ref_token(ip: [u8; 4], secret: &[u8; 20]) -> [u8; 4] {
    let mut c: u32 = 0xFFFF_FFFF;
    let mut i = 0usize;
    while i < 4 {
        c = spec::crc_byte(c, ip[i]);
        i += 1;
    }
    let mut j = 0usize;
    while j < 20 {
        c = spec::crc_byte(c, secret[j]);
        j += 1;
    }
    (c ^ 0xFFFF_FFFF).to_be_bytes()
}

fn tokens(prev: [u8; 20], curr: [u8; 20], age_ms: u64) -> Tokens {
    Tokens { prev_secret: prev, curr_secret: curr, last_updated: clock::ago_ms(age_ms) }
}

/// a Tokens value with fixed secrets, for harnesses of callers that stub validate/generate_token
pub(crate) fn fixed_tokens() -> Tokens {
    tokens([1u8; 20], [2u8; 20], 0)
}

pub(crate) fn fill_symbolic(dest: &mut [u8]) -> Result<(), getrandom::Error> {
    let mut i = 0usize;
    while i < dest.len() {
        dest[i] = kani::any();
        i += 1;
    }
    Ok(())
}

/// K-total: generate_token(addr) == CRC32C(ip || current secret); the port plays no role.
#[kani::proof]
#[kani::unwind(22)]
fn c15_generate_token_is_crc_of_ip_and_current_secret() {
    generate_case(kani::any(), kani::any())
}

fn generate_case(prev: [u8; 20], curr: [u8; 20]) {
    let mut t = tokens(prev, curr, 0);
    let ip: [u8; 4] = kani::any();
    let tok = t.generate_token(SocketAddrV4::new(ip.into(), kani::any()));
    assert!(tok == ref_token(ip, &curr));
    core::mem::forget(t);
}

/// K-total: validate(addr, tok) <=> tok is the 4-byte token of the presenter's ip under the
/// current or the previous secret — for every token of length 0..=5, every ip, every secret pair.
#[kani::proof]
#[kani::unwind(22)]
fn c15_validate_iff_token_of_this_ip_under_current_or_previous_secret() {
    validate_case(kani::any(), kani::any())
}

fn validate_case(prev: [u8; 20], curr: [u8; 20]) {
    let mut t = tokens(prev, curr, 0);
    let ip: [u8; 4] = kani::any();
    let buf: [u8; 5] = kani::any();
    let len: usize = kani::any();
    kani::assume(len <= 5);
    let got = t.validate(SocketAddrV4::new(ip.into(), kani::any()), &buf[..len]);
    let tc = ref_token(ip, &curr);
    let tp = ref_token(ip, &prev);
    let want = len == 4 && ((buf[0] == tc[0] && buf[1] == tc[1] && buf[2] == tc[2] && buf[3] == tc[3])
        || (buf[0] == tp[0] && buf[1] == tp[1] && buf[2] == tp[2] && buf[3] == tp[3]));
    assert!(got == want);
    // validate does not change the secrets
    assert!(t.curr_secret == curr && t.prev_secret == prev);
    kani::cover!(got && buf[0] == tp[0] && tc[0] != tp[0]);
    kani::cover!(got);
    kani::cover!(!got && len == 4);
    kani::cover!(!got && len == 0);
    core::mem::forget(t);
}

/// K-total: IP binding under one secret: tokens of two different addresses never coincide
/// (CRC is affine with a non-zero constant term), for all ip pairs and all 2^160 secrets.
#[kani::proof]
#[kani::unwind(22)]
fn c15_tokens_of_different_ips_differ() {
    let s: [u8; 20] = kani::any();
    let mut t = tokens(s, s, 0);
    let ip1: [u8; 4] = kani::any();
    let ip2: [u8; 4] = kani::any();
    kani::assume(ip1 != ip2);
    let a = t.internal_generate_token(SocketAddrV4::new(ip1.into(), 1), s);
    let b = t.internal_generate_token(SocketAddrV4::new(ip2.into(), 1), s);
    assert!(a != b);
    // hence: a token issued to ip1 is not the current-secret token of ip2
    core::mem::forget(t);
}

/// K-total: rotate(): previous := current, current := fresh randomness, last_updated := now;
/// should_update() <=> more than 5 minutes since last_updated.
#[kani::proof]
#[kani::unwind(22)]
#[kani::stub(std::time::Instant::now, clock::mock_now)]
#[kani::stub(std::time::Instant::elapsed, clock::mock_elapsed)]
#[kani::stub(getrandom::fill, fill_symbolic)]
fn c15_rotate_and_should_update() {
    let prev: [u8; 20] = kani::any();
    let curr: [u8; 20] = kani::any();
    let age: u64 = kani::any();
    kani::assume(age <= 3_600_000);
    let mut t = tokens(prev, curr, age);
    assert!(t.should_update() == (age > 300_000));
    t.rotate();
    assert!(t.prev_secret == curr);
    assert!(!t.should_update());
    assert!(t.last_updated == clock::mock_now());
    kani::cover!(age == 300_000);
    kani::cover!(age == 300_001);
    kani::cover!(t.curr_secret != curr);
    core::mem::forget(t);
}

// ---------------------------------------------------------------------------------------------
// Modular quick-tier obligations: validate / generate_token against the CONTRACT of
// internal_generate_token ("a function of (ip, secret)"), realised as a contract stub with a ghost
// table. The contract itself (it is CRC32C(ip || secret)) is the expensive obligation above.
// ---------------------------------------------------------------------------------------------
static mut KEY_CURR: [u8; 20] = [0; 20];
static mut F_CURR: [u8; 4] = [0; 4];
static mut F_PREV: [u8; 4] = [0; 4];
static mut F_IP: u32 = 0;
static mut F_CALLS: u32 = 0;

fn stub_internal_generate_token(_t: &mut Tokens, address: SocketAddrV4, secret: [u8; 20]) -> [u8; 4] {
    unsafe {
        F_CALLS += 1;
        assert!(address.ip().to_bits() == F_IP, "token computed for an address other than the presenter's");
        if secret == KEY_CURR { F_CURR } else { F_PREV }
    }
}

#[kani::proof]
#[kani::unwind(22)]
#[kani::stub(Tokens::internal_generate_token, stub_internal_generate_token)]
#[kani::stub(std::time::Instant::now, clock::mock_now)]
#[kani::stub(std::time::Instant::elapsed, clock::mock_elapsed)]
#[kani::stub(getrandom::fill, fill_symbolic)]
fn c15_validate_and_generate_use_the_presenters_ip_and_both_secrets() {
    let prev: [u8; 20] = kani::any();
    let curr: [u8; 20] = kani::any();
    let mut t = tokens(prev, curr, 0);
    let ip: u32 = kani::any();
    let addr = SocketAddrV4::new(ip.into(), kani::any());
    let fc: [u8; 4] = kani::any();
    let fp: [u8; 4] = kani::any();
    unsafe {
        KEY_CURR = curr;
        F_CURR = fc;
        F_PREV = if prev == curr { fc } else { fp };
        F_IP = ip;
    }
    let want_prev = unsafe { F_PREV };
    let buf: [u8; 5] = kani::any();
    let len: usize = kani::any();
    kani::assume(len <= 5);
    let got = t.validate(addr, &buf[..len]);
    let is = |x: [u8; 4]| len == 4 && buf[0] == x[0] && buf[1] == x[1] && buf[2] == x[2] && buf[3] == x[3];
    assert!(got == (is(fc) || is(want_prev)));
    assert!(t.curr_secret == curr && t.prev_secret == prev);
    // a freshly generated token is the current-secret token of that ip, and validates
    let issued = t.generate_token(addr);
    assert!(issued == fc);
    assert!(t.validate(addr, &issued));
    kani::cover!(got && is(want_prev) && !is(fc));
    kani::cover!(got && is(fc));
    kani::cover!(!got && len == 4);
    kani::cover!(!got && len < 4);
    kani::cover!(!got && len == 5);
    core::mem::forget(t);
}
