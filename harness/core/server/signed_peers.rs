// Kani harness module for src/core/server/signed_peers.rs (child `verif_kani`). Properties C03, C20.
use super::*;

/// (present, timestamp, signature[0]) of the announcement recorded for key `k` under `info_hash`
pub(crate) fn view(s: &SignedPeersStore, info_hash: &Id, k: &[u8; 32]) -> (bool, u64, u8) {
    match s.info_hashes.peek(info_hash) {
        Some(l) => match l.peek(k) {
            Some(a) => (true, a.timestamp(), a.signature()[0]),
            None => (false, 0, 0),
        },
        None => (false, 0, 0),
    }
}

pub(crate) fn info_hashes(s: &SignedPeersStore) -> usize {
    s.info_hashes.len()
}

pub(crate) fn peers_of(s: &SignedPeersStore, info_hash: &Id) -> usize {
    match s.info_hashes.peek(info_hash) {
        Some(l) => l.len(),
        None => 0,
    }
}

/// (capacity for info hashes, capacity per info hash)
pub(crate) fn caps(s: &SignedPeersStore) -> (usize, usize) {
    (s.info_hashes.cap().get(), s.max_peers.get())
}
