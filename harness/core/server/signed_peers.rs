// Kani harness module for src/core/server/signed_peers.rs (child `verif_kani`). Properties C03, C20.
use super::*;

/// (present, timestamp, signature[0]) of the announcement recorded for key `k` under `info_hash`
pub(crate) fn view(s: &SignedPeersStore, info_hash: &Id, k: &[u8; 32]) -> (bool, u64, u8) {
    match s.info_hashes.peek(info_hash) {
        Some(l) => match l.peek(k) {
            Some(a) => (true, a.timestamp(), a.signature()[0]),
            None => (false, 0, 0),
        },
        None => (false, 0, 0),
    }
}

pub(crate) fn info_hashes(s: &SignedPeersStore) -> usize {
    s.info_hashes.len()
}

pub(crate) fn peers_of(s: &SignedPeersStore, info_hash: &Id) -> usize {
    match s.info_hashes.peek(info_hash) {
        Some(l) => l.len(),
        None => 0,
    }
}

/// (capacity for info hashes, capacity per info hash)
pub(crate) fn caps(s: &SignedPeersStore) -> (usize, usize) {
    (s.info_hashes.cap().get(), s.max_peers.get())
}

fn idp(b: u8) -> Id {
    let mut x = [7u8; 20];
    x[0] = b;
    Id::from(x)
}

fn ann(k0: u8, t: u64) -> SignedAnnounce {
    let mut key = [9u8; 32];
    key[0] = k0;
    SignedAnnounce { key, timestamp: t, signature: [3u8; 64] }
}

/// C20: the same for the signed-peers store (keyed by announcer key)
#[kani::proof]
#[kani::unwind(34)]
fn c20_signed_peer_store_never_exceeds_its_capacities() {
    let caps: usize = if kani::any() { 1 } else { 2 };
    let mut s = SignedPeersStore::new(NonZeroUsize::new(2).unwrap(), NonZeroUsize::new(caps).unwrap());
    let h1 = idp(1);
    s.add_peer(h1, ann(1, 1));
    s.add_peer(h1, ann(2, 2));
    s.add_peer(h1, ann(3, 3));
    assert!(peers_of(&s, &h1) == caps, "C20: at most max_peers_per_info_hash signed announcements per info hash");
    let mut k3 = [9u8; 32];
    k3[0] = 3;
    assert!(view(&s, &h1, &k3) == (true, 3, 3));
    s.add_peer(idp(2), ann(4, 4));
    s.add_peer(idp(3), ann(5, 5));
    assert!(info_hashes(&s) == 2 && peers_of(&s, &h1) == 0, "C20: at most max_info_hashes info hashes, least recently used evicted");
    core::mem::forget(s);
}
