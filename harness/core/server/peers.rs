// Kani harness module for src/core/server/peers.rs (child `verif_kani`). Properties C03, C20.
use super::*;

/// (present, ip, port) of the endpoint recorded for `who` under `info_hash` (no LRU reordering)
pub(crate) fn view(s: &PeersStore, info_hash: &Id, who: &Id) -> (bool, u32, u16) {
    match s.info_hashes.peek(info_hash) {
        Some(l) => match l.peek(who) {
            Some(a) => (true, a.ip().to_bits(), a.port()),
            None => (false, 0, 0),
        },
        None => (false, 0, 0),
    }
}

pub(crate) fn info_hashes(s: &PeersStore) -> usize {
    s.info_hashes.len()
}

pub(crate) fn peers_of(s: &PeersStore, info_hash: &Id) -> usize {
    match s.info_hashes.peek(info_hash) {
        Some(l) => l.len(),
        None => 0,
    }
}

/// (capacity for info hashes, capacity per info hash)
pub(crate) fn caps(s: &PeersStore) -> (usize, usize) {
    (s.info_hashes.cap().get(), s.max_peers.get())
}

fn idp(b: u8) -> Id {
    let mut x = [7u8; 20];
    x[0] = b;
    Id::from(x)
}

/// C20: the peer store never holds more info hashes or more peers per info hash than configured, and
/// it is the least recently used entry that goes
#[kani::proof]
#[kani::unwind(22)]
fn c20_peer_store_never_exceeds_its_capacities() {
    let caps: usize = if kani::any() { 1 } else { 2 };
    let mut s = PeersStore::new(NonZeroUsize::new(2).unwrap(), NonZeroUsize::new(caps).unwrap());
    let h1 = idp(1);
    s.add_peer(h1, (&idp(0x11), SocketAddrV4::new(1u32.into(), 1)));
    s.add_peer(h1, (&idp(0x12), SocketAddrV4::new(2u32.into(), 2)));
    s.add_peer(h1, (&idp(0x13), SocketAddrV4::new(3u32.into(), 3)));
    assert!(peers_of(&s, &h1) == caps, "C20: at most max_peers_per_info_hash peers are kept for one info hash");
    assert!(view(&s, &h1, &idp(0x13)).0 && !view(&s, &h1, &idp(0x11)).0, "C20: the most recent announcement is kept, the least recent one evicted");
    s.add_peer(idp(2), (&idp(0x21), SocketAddrV4::new(4u32.into(), 4)));
    s.add_peer(idp(3), (&idp(0x31), SocketAddrV4::new(5u32.into(), 5)));
    assert!(info_hashes(&s) == 2, "C20: at most max_info_hashes info hashes are kept");
    assert!(peers_of(&s, &h1) == 0 && peers_of(&s, &idp(3)) == 1, "C20: the least recently used info hash is the one evicted");
    // announcing again under a known info hash and id replaces the endpoint, it does not add an entry
    s.add_peer(idp(3), (&idp(0x31), SocketAddrV4::new(6u32.into(), 6)));
    assert!(peers_of(&s, &idp(3)) == 1 && view(&s, &idp(3), &idp(0x31)) == (true, 6, 6));
    core::mem::forget(s);
}
