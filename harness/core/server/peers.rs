// Kani harness module for src/core/server/peers.rs (child `verif_kani`). Properties C03, C20.
use super::*;

/// (present, ip, port) of the endpoint recorded for `who` under `info_hash` (no LRU reordering)
pub(crate) fn view(s: &PeersStore, info_hash: &Id, who: &Id) -> (bool, u32, u16) {
    match s.info_hashes.peek(info_hash) {
        Some(l) => match l.peek(who) {
            Some(a) => (true, a.ip().to_bits(), a.port()),
            None => (false, 0, 0),
        },
        None => (false, 0, 0),
    }
}

pub(crate) fn info_hashes(s: &PeersStore) -> usize {
    s.info_hashes.len()
}

pub(crate) fn peers_of(s: &PeersStore, info_hash: &Id) -> usize {
    match s.info_hashes.peek(info_hash) {
        Some(l) => l.len(),
        None => 0,
    }
}

/// (capacity for info hashes, capacity per info hash)
pub(crate) fn caps(s: &PeersStore) -> (usize, usize) {
    (s.info_hashes.cap().get(), s.max_peers.get())
}
