// Kani harness module for src/core/iterative_query.rs (child `verif_kani`). Property C07 (per-tick
// step of a lookup), helpers for C18/C20 (address votes), C06 (is_done).
// `visited` and `public_address_votes` are the stand-ins of /verif/models (std tables are out of reach).
use super::*;
use crate::common::verif_kani::node::node_aged;
use crate::common::{FindNodeRequestArguments, ID_SIZE};

pub(crate) fn id1(b: u8) -> Id {
    let mut x = [7u8; ID_SIZE];
    x[0] = b;
    Id::from(x)
}

/// kind: 0 find_node, 1 get_peers, 2 get_signed_peers, 3 get_value
pub(crate) fn query(kind: u8, target: Id) -> IterativeQuery {
    let req = match kind {
        0 => GetRequestSpecific::FindNode(FindNodeRequestArguments { target }),
        1 => GetRequestSpecific::GetPeers(GetPeersRequestArguments { info_hash: target }),
        2 => GetRequestSpecific::GetSignedPeers(GetPeersRequestArguments { info_hash: target }),
        _ => GetRequestSpecific::GetValue(GetValueRequestArguments { target, seq: None, salt: None }),
    };
    IterativeQuery::new(id1(0xEE), target, req)
}

pub(crate) fn set_inflight(q: &mut IterativeQuery, tids: &[u32]) {
    // a fresh Vec assigned as a whole: after the byte-wise move of the query into a map slot the
    // old Vec's length is no longer a constant for CBMC's symbolic execution, and every
    // `contains` over it would be unrolled to the unwinding bound
    let mut v = Vec::with_capacity(4);
    let mut i = 0usize;
    while i < tids.len() {
        v.push(tids[i]);
        i += 1;
    }
    q.inflight_requests = v;
}

pub(crate) fn set_votes(q: &mut IterativeQuery, a: Option<(SocketAddrV4, u32)>, b: Option<(SocketAddrV4, u32)>) {
    if let Some((addr, n)) = a {
        q.public_address_votes.insert(addr, n);
    }
    if let Some((addr, n)) = b {
        q.public_address_votes.insert(addr, n);
    }
}

pub(crate) fn votes_for(q: &IterativeQuery, a: &SocketAddrV4) -> u32 {
    match q.public_address_votes.get(a) {
        Some(n) => *n,
        None => 0,
    }
}

pub(crate) fn responses_len(q: &IterativeQuery) -> usize {
    q.responses.len()
}

pub(crate) fn push_response(q: &mut IterativeQuery, r: Response) {
    q.responses.push(r)
}

pub(crate) fn set_closest(q: &mut IterativeQuery, c: ClosestNodes) {
    q.closest = c;
}

pub(crate) fn set_responders(q: &mut IterativeQuery, c: ClosestNodes) {
    q.responders = c;
}

pub(crate) fn push_candidate(q: &mut IterativeQuery, n: Node) {
    q.closest.add(n)
}

pub(crate) fn push_responder(q: &mut IterativeQuery, n: Node) {
    q.responders.add(n)
}

pub(crate) fn visited(q: &IterativeQuery, a: &SocketAddrV4) -> bool {
    q.visited.contains(a)
}

// ---- socket stubs -----------------------------------------------------------------------------
static mut SENT_N: usize = 0;
static mut SENT_TO: [u32; 4] = [0; 4];
static mut SENT_KIND_OK: bool = true;
static mut LIVE_MASK: u32 = 0;

fn stub_request(_s: &mut KrpcSocket, address: SocketAddrV4, request: RequestSpecific) -> u32 {
    unsafe {
        if SENT_N < 4 {
            SENT_TO[SENT_N] = address.ip().to_bits();
        }
        SENT_KIND_OK = SENT_KIND_OK && matches!(request.request_type, RequestTypeSpecific::GetValue(_));
        SENT_N += 1;
        core::mem::forget(request);
        500 + SENT_N as u32
    }
}
fn stub_inflight(_s: &KrpcSocket, tid: &u32) -> bool {
    let i = tid.wrapping_sub(500);
    i < 32 && unsafe { LIVE_MASK } & (1u32 << i) != 0
}
fn stub_valid(id: &Id, ip: std::net::Ipv4Addr) -> bool {
    (id.as_bytes()[19] ^ ip.octets()[3]) & 1 == 1
}

fn cand(b0: u8, ip3: u8) -> Node {
    node_aged(id1(b0), SocketAddrV4::new(std::net::Ipv4Addr::new(30, 0, b0, ip3), 6881), 0)
}

/// closest_candidates() = the addresses of the (first 20) accepted candidates that were not visited
/// yet, in the accumulator's order; visit_closest() sends the lookup's request to exactly those, marks
/// them visited, and a second call sends nothing: no address is ever queried twice.
#[kani::proof]
#[kani::unwind(4)]
#[kani::stub(KrpcSocket::request, stub_request)]
fn c07_visit_closest_queries_every_unvisited_candidate_exactly_once() {
    let mut q = query(3, id1(0));
    let a = cand(0x10, 2); // closer to target 00..
    let b = cand(0x20, 2);
    let have_a: bool = kani::any();
    let have_b: bool = kani::any();
    // the accumulator is built directly, in its order (that add() keeps that order is C11's
    // obligation), over a STACK-backed buffer: CBMC folds loops over stack slices but runs loops over
    // a heap Vec<Node> to the unwinding bound (this obligation exhausted 10 GB on a heap buffer)
    let mut slab: [core::mem::MaybeUninit<Node>; 2] = unsafe { core::mem::MaybeUninit::uninit().assume_init() };
    let mut n = 0usize;
    if have_a {
        slab[n].write(a.clone());
        n += 1;
    }
    if have_b {
        slab[n].write(b.clone());
        n += 1;
    }
    q.closest = crate::common::verif_kani::closest_nodes::with_nodes(id1(0), unsafe { Vec::from_raw_parts(slab.as_mut_ptr() as *mut Node, n, 2) });
    let a_visited: bool = kani::any();
    if a_visited {
        q.visited.insert(a.address());
    }
    let mut s = crate::actor::socket::verif_kani::idle_socket(true);
    let want_a = have_a && !a_visited;
    let want_b = have_b;
    let cc = q.closest_candidates();
    assert!(cc.len() == (if want_a { 1 } else { 0 }) + (if want_b { 1 } else { 0 }), "C07: candidates = unvisited entries among the closest");
    if want_a {
        assert!(cc[0] == a.address(), "closest first");
    }
    if want_b {
        assert!(cc[cc.len() - 1] == b.address());
    }
    let before = q.inflight_requests.len();
    q.visit_closest(&mut s);
    let sent = unsafe { SENT_N };
    assert!(sent == cc.len() && q.inflight_requests.len() == before + sent, "C07: one request per unvisited candidate, each tracked as in flight");
    assert!(unsafe { SENT_KIND_OK }, "the lookup's own request is what is sent");
    if want_a {
        assert!(unsafe { SENT_TO[0] } == a.address().ip().to_bits() && q.inflight(501));
    }
    assert!(!have_a || q.visited.contains(&a.address()));
    assert!(!have_b || q.visited.contains(&b.address()));
    assert!(q.closest_candidates().is_empty(), "C07: after a tick nothing among the closest is left unqueried");
    q.visit_closest(&mut s);
    assert!(unsafe { SENT_N } == sent, "C07: an address that has been queried is never queried again by the same lookup");
    kani::cover!(want_a && want_b);
    kani::cover!(have_a && a_visited && have_b);
    core::mem::forget(cc);
    core::mem::forget(q);
    core::mem::forget(s);
}

/// explicit visit(address) (bootstrap nodes / extra nodes): one request, tracked, marked visited
#[kani::proof]
#[kani::unwind(22)]
#[kani::stub(KrpcSocket::request, stub_request)]
fn c07_visit_marks_the_address_visited_and_tracks_the_request() {
    let mut q = query(3, id1(0));
    let mut s = crate::actor::socket::verif_kani::idle_socket(true);
    let addr = SocketAddrV4::new(kani::any::<u32>().into(), kani::any());
    q.visit(&mut s, addr);
    assert!(unsafe { SENT_N } == 1 && unsafe { SENT_TO[0] } == addr.ip().to_bits());
    assert!(q.visited.contains(&addr) && q.inflight(501) && q.inflight_requests.len() == 1);
    core::mem::forget(q);
    core::mem::forget(s);
}

/// is_done() <=> none of this lookup's requests is still in flight in the socket (C06/C07)
#[kani::proof]
#[kani::unwind(22)]
#[kani::stub(KrpcSocket::inflight, stub_inflight)]
fn c07_is_done_iff_no_request_in_flight() {
    let mut q = query(kani::any::<u8>() % 4, id1(0));
    let n: usize = kani::any();
    kani::assume(n <= 3);
    let mut i = 0usize;
    while i < 3 {
        if i < n {
            q.inflight_requests.push(500 + i as u32);
        }
        i += 1;
    }
    let live: u32 = kani::any();
    unsafe { LIVE_MASK = live };
    let s = crate::actor::socket::verif_kani::idle_socket(true);
    let any_live = (n > 0 && live & 1 != 0) || (n > 1 && live & 2 != 0) || (n > 2 && live & 4 != 0);
    assert!(q.is_done(&s) == !any_live, "C06/C07: a lookup is done exactly when none of its requests is in flight any more");
    kani::cover!(n == 3 && !any_live);
    kani::cover!(n == 3 && any_live);
    core::mem::forget(q);
    core::mem::forget(s);
}

/// best_address(): the address with the most votes (None without votes); add_address_vote counts
#[kani::proof]
#[kani::unwind(22)]
fn c18_best_address_is_the_most_voted() {
    let mut q = query(0, id1(0));
    let a = SocketAddrV4::new(1u32.into(), 1);
    let b = SocketAddrV4::new(2u32.into(), 2);
    let na: u32 = kani::any();
    let nb: u32 = kani::any();
    kani::assume(na < 1000 && nb < 1000);
    if na > 0 {
        q.public_address_votes.insert(a, na);
    }
    if nb > 0 {
        q.public_address_votes.insert(b, nb);
    }
    let best = q.best_address();
    if na == 0 && nb == 0 {
        assert!(best.is_none());
    } else if na > nb {
        assert!(best == Some(a));
    } else if nb > na {
        assert!(best == Some(b));
    } else {
        assert!(best == Some(a) || best == Some(b));
    }
    // one more vote for a
    q.add_address_vote(a);
    assert!(votes_for(&q, &a) == na + 1 && votes_for(&q, &b) == nb, "a vote counts once, for the voted address only");
    core::mem::forget(q);
}

// ---- C07: a node listed in an answer is always offered to the accumulator -----------------------
static mut ACC_ADD_CALLS: u32 = 0;
fn stub_acc_add(_c: &mut ClosestNodes, node: Node) {
    unsafe { ACC_ADD_CALLS += 1 };
    core::mem::forget(node);
}

/// add_candidate hands EVERY node to ClosestNodes::add, however many candidates are already known
/// and however far the node is: whether it is among the closest is the accumulator's decision (C11),
/// and a node that is far by XOR distance may still be first in the secure-first order.
#[kani::proof]
#[kani::unwind(24)]
#[kani::stub(ClosestNodes::add, stub_acc_add)]
fn c07_add_candidate_never_discards_a_node() {
    let mut q = query(3, id1(0));
    let mut i = 0u8;
    while i < 21 {
        crate::common::verif_kani::closest_nodes::push_raw(&mut q.closest, node_aged(id1(i), SocketAddrV4::new(std::net::Ipv4Addr::new(40, 0, 0, i), 1), 0));
        i += 1;
    }
    let b0: u8 = kani::any();
    q.add_candidate(node_aged(id1(b0), SocketAddrV4::new(std::net::Ipv4Addr::new(41, 0, 0, 1), 1), 0));
    assert!(unsafe { ACC_ADD_CALLS } == 1, "C07: every node listed in an answer is offered to the lookup's accumulator");
    kani::cover!(b0 == 0xFF);
    core::mem::forget(q);
}
