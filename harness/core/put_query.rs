// Kani harnesses for src/core/put_query.rs — child module `verif_kani` of `core::put_query`.
// Properties C08 (truthful put results), C06 (a put that sent nothing is never "started"),
// C17/C05 (301/302 never surface for immutable or announce puts).
use super::*;
use crate::common::{
    AnnouncePeerRequestArguments, PutImmutableRequestArguments, PutMutableRequestArguments,
};
use std::net::SocketAddrV4;

include!("/verif/harness/support.rs");

mod spec {
    include!("/verif/spec/put.rs");
}

fn tgt() -> Id {
    Id::from([9u8; 20])
}

fn request_of_kind(kind: u8) -> PutRequestSpecific {
    match kind {
        0 => PutRequestSpecific::PutMutable(PutMutableRequestArguments {
            target: tgt(),
            v: Box::new([]),
            k: [1u8; 32],
            seq: 1,
            sig: [2u8; 64],
            salt: None,
            cas: None,
        }),
        1 => PutRequestSpecific::PutImmutable(PutImmutableRequestArguments { target: tgt(), v: Box::new([]) }),
        _ => PutRequestSpecific::AnnouncePeer(AnnouncePeerRequestArguments { info_hash: tgt(), port: 1, implied_port: None }),
    }
}

fn err(code: i32) -> ErrorSpecific {
    ErrorSpecific { code, description: String::new() }
}

fn query(kind: u8, sent: usize) -> PutQuery {
    let mut q = PutQuery::new(request_of_kind(kind), None);
    let mut i = 0usize;
    while i < sent {
        q.inflight_requests.push(100 + i as u32);
        i += 1;
    }
    q
}

// ---- ghost state for the socket stubs ----------------------------------------------------
static mut LIVE_MASK: u32 = 0; // bit i set <=> tid 100+i is still in flight
static mut SENT_N: usize = 0;
static mut SENT_ADDR: [u32; 4] = [0; 4];
static mut SENT_TOKEN: [u8; 4] = [0; 4];
static mut SENT_IS_PUT: [bool; 4] = [false; 4];

/// contract stub for KrpcSocket::inflight: liveness of a tid is whatever the environment says
fn stub_inflight(_s: &KrpcSocket, tid: &u32) -> bool {
    let i = tid.wrapping_sub(100);
    i < 32 && unsafe { LIVE_MASK } & (1u32 << i) != 0
}

/// recording stub for KrpcSocket::request: logs destination, token and returns sequential tids
fn stub_request(_s: &mut KrpcSocket, address: SocketAddrV4, request: RequestSpecific) -> u32 {
    unsafe {
        let n = SENT_N;
        if n < 4 {
            SENT_ADDR[n] = address.ip().to_bits();
            if let RequestTypeSpecific::Put(PutRequest { token, put_request_type }) = &request.request_type {
                SENT_IS_PUT[n] = matches!(put_request_type, PutRequestSpecific::PutImmutable(_));
                SENT_TOKEN[n] = if token.len() == 1 { token[0] } else { 0 };
            }
        }
        SENT_N = n + 1;
        core::mem::forget(request);
        100 + n as u32
    }
}

/// stub for Id::random (the requester id of a store request is irrelevant to C08)
fn id_const() -> Id {
    Id::from([5u8; 20])
}

fn idle_socket() -> KrpcSocket {
    crate::actor::socket::verif_kani::idle_socket(true)
}

// ---------------------------------------------------------------------------------------------
// K-contract: success() — contract attributes are spliced above the real function
// ---------------------------------------------------------------------------------------------

#[kani::proof_for_contract(PutQuery::success)]
fn c08_success_contract() {
    let mut q = query(kani::any::<u8>() % 3, 0);
    q.stored_at = kani::any();
    q.success();
    core::mem::forget(q);
}

// ---------------------------------------------------------------------------------------------
// error(): tallies. Invariant: codes pairwise distinct, counts >= 1, sorted by count descending.
// ---------------------------------------------------------------------------------------------

pub(crate) fn stored_at_of(q: &PutQuery) -> usize {
    q.stored_at
}

pub(crate) fn tally_of(q: &PutQuery, code: i32) -> usize {
    count_of(q, code)
}

pub(crate) fn tallies(q: &PutQuery) -> usize {
    q.errors.len()
}

fn count_of(q: &PutQuery, code: i32) -> usize {
    let mut i = 0usize;
    while i < q.errors.len() {
        if q.errors[i].1.code == code {
            return q.errors[i].0;
        }
        i += 1;
    }
    0
}

#[kani::proof]
#[kani::unwind(6)]
fn c08_error_tally_counts_one_and_keeps_order() {
    let n: usize = 3;
    let codes: [i32; 3] = [kani::any(), kani::any(), kani::any()];
    let counts: [usize; 3] = [kani::any(), kani::any(), kani::any()];
    kani::assume(codes[0] != codes[1] && codes[0] != codes[2] && codes[1] != codes[2]);
    kani::assume(counts[0] >= counts[1] && counts[1] >= counts[2] && counts[2] >= 1 && counts[0] < usize::MAX);
    let mut q = query(2, 0);
    q.errors = Vec::with_capacity(4); // no reallocation inside the call
    q.errors.push((counts[0], err(codes[0])));
    q.errors.push((counts[1], err(codes[1])));
    q.errors.push((counts[2], err(codes[2])));
    let incoming: i32 = kani::any();
    let other: i32 = kani::any();
    kani::assume(other != incoming);
    let before_in = count_of(&q, incoming);
    let before_other = count_of(&q, other);

    q.error(err(incoming));

    assert!(count_of(&q, incoming) == before_in + 1);
    assert!(count_of(&q, other) == before_other);
    assert!(q.errors.len() == if before_in == 0 { n + 1 } else { n });
    // still sorted by count, highest first
    let j: usize = kani::any();
    kani::assume(j < 3 && j + 1 < q.errors.len());
    assert!(q.errors[j].0 >= q.errors[j + 1].0);
    // the most common error is reported first
    assert!(q.errors[0].0 >= count_of(&q, incoming));
    kani::cover!(n == 3 && before_in > 0 && q.errors[0].1.code == incoming && codes[0] != incoming);
    kani::cover!(before_in == 0 && n == 3);
    kani::cover!(before_in > 0 && codes[2] == incoming && q.errors[0].1.code == incoming);
    core::mem::forget(q);
}

// ---------------------------------------------------------------------------------------------
// check(): the outcome refines spec::put_outcome for every tally, kind and liveness pattern
// ---------------------------------------------------------------------------------------------

fn outcome_code(r: &Result<bool, PutError>) -> i32 {
    match r {
        Ok(false) => 0,
        Ok(true) => 1,
        Err(PutError::Query(_)) => 2,
        Err(PutError::Concurrency(ConcurrencyError::CasFailed)) => 301,
        Err(PutError::Concurrency(ConcurrencyError::NotMostRecent)) => 302,
        Err(PutError::Concurrency(ConcurrencyError::ConflictRisk)) => -1,
    }
}

#[kani::proof]
#[kani::unwind(6)]
#[kani::stub(crate::actor::socket::KrpcSocket::inflight, stub_inflight)]
fn c08_check_refines_put_outcome() {
    let kind: u8 = kani::any();
    kani::assume(kind < 3);
    let sent: usize = kani::any();
    kani::assume(sent <= 3);
    let mut q = query(kind, sent);
    q.stored_at = kani::any();
    let n_err: usize = kani::any();
    kani::assume(n_err <= 2);
    let c0: i32 = kani::any();
    let c1: i32 = kani::any();
    let k0: usize = kani::any();
    let k1: usize = kani::any();
    kani::assume(c0 != c1 && k0 >= k1 && k1 >= 1);
    if n_err >= 1 {
        q.errors.push((k0, err(c0)));
    }
    if n_err >= 2 {
        q.errors.push((k1, err(c1)));
    }
    let mask: u32 = kani::any();
    kani::assume(mask < 8);
    unsafe { LIVE_MASK = mask };
    let live = (mask & ((1u32 << sent) - 1)).count_ones() as u64;

    let sock = idle_socket();
    let r = q.check(&sock);
    let got = outcome_code(&r);

    let top_code = if n_err >= 1 { c0 } else { 0 };
    let top_count = if n_err >= 1 { k0 as u64 } else { 0 };
    let done = spec::put_done(sent as u64, live);
    let want = spec::put_outcome(kind == 0, done, q.stored_at as u64, top_code, top_count, sent as u64);
    assert!(got == want);
    // C17/C05: the errors that callers of immutable/announce puts answer with unreachable!()
    if kind != 0 {
        assert!(got != 301 && got != 302 && got != -1);
    }
    assert!(q.is_done(&sock) == done);
    kani::cover!(got == 1);
    kani::cover!(got == 2 && n_err >= 1 && c0 == 301 && kind == 1);
    kani::cover!(got == 301 && !done);
    kani::cover!(got == 302 && done);
    kani::cover!(got == 0 && sent == 0);
    kani::cover!(got == 0 && kind == 0 && c0 == 301 && n_err >= 1 && sent == 3 && k0 == 1);
    core::mem::forget(r);
    core::mem::forget(q);
    core::mem::forget(sock);
}

// ---------------------------------------------------------------------------------------------
// start(): only token-bearing nodes are written to, each with its own token; Ok => started
// ---------------------------------------------------------------------------------------------

fn node(i: u8, has_token: bool) -> Node {
    let a = SocketAddrV4::new([10, 0, 0, i].into(), 6881);
    if has_token {
        Node::new_with_token(Id::from([i; 20]), a, Box::new([0x40 + i]))
    } else {
        Node::new(Id::from([i; 20]), a)
    }
}

fn start_pattern(n_closest: usize, tok: [bool; 3], has_extra: bool) {
    let closest_all = [node(1, tok[0]), node(2, tok[1])];
    let extra: Option<Box<[Node]>> = if has_extra { Some(Box::new([node(3, tok[2])])) } else { None };
    let mut q = PutQuery::new(request_of_kind(1), extra);
    q.inflight_requests = Vec::with_capacity(4); // still empty; avoids reallocation inside the call
    let mut sock = idle_socket();
    unsafe { SENT_N = 0 };

    let r = q.start(&mut sock, &closest_all[..n_closest]);

    // expected recipients, in order
    let mut want_n = 0usize;
    let mut want_ip = [0u32; 3];
    let mut want_tok = [0u8; 3];
    let mut i = 0usize;
    while i < n_closest {
        if tok[i] {
            want_ip[want_n] = u32::from_be_bytes([10, 0, 0, 1 + i as u8]);
            want_tok[want_n] = 0x41 + i as u8;
            want_n += 1;
        }
        i += 1;
    }
    if has_extra && tok[2] && n_closest > 0 {
        want_ip[want_n] = u32::from_be_bytes([10, 0, 0, 3]);
        want_tok[want_n] = 0x43;
        want_n += 1;
    }
    if n_closest == 0 {
        // nothing to address: error, nothing sent
        assert!(r.is_err());
        assert!(unsafe { SENT_N } == 0);
    } else {
        assert!(unsafe { SENT_N } == want_n);
        let j: usize = kani::any();
        kani::assume(j < want_n);
        unsafe {
            assert!(SENT_ADDR[j] == want_ip[j]);
            assert!(SENT_TOKEN[j] == want_tok[j]); // each node gets its own token
            assert!(SENT_IS_PUT[j]);
        }
        // C06: Ok  ==>  started (otherwise the put can never finish); nothing sent ==> Err
        assert!(r.is_ok() == (want_n > 0));
        assert!(q.started() == (want_n > 0));
        assert!(q.inflight_requests.len() == want_n);
        let t: usize = kani::any();
        kani::assume(t < want_n);
        assert!(q.inflight(100 + t as u32));
    }
    core::mem::forget(r);
    core::mem::forget(q);
    core::mem::forget(sock);
    core::mem::forget(closest_all);
}

/// contract stub for the getter Node::token() (`self.0.token.clone()`): the token of test node i
/// is the one byte 0x40+i. Its contract (a copy of the stored token) is the obligation
/// `c08_node_token_returns_stored_token` below. Reading the slice length back from the Arc'd heap
/// object makes the clone's allocation size symbolic for CBMC (measured: > 24 GB).
fn stub_token(n: &Node) -> Option<Box<[u8]>> {
    if n.0.token.is_some() {
        Some(Box::new([0x40 + n.0.id.as_bytes()[0]]))
    } else {
        None
    }
}

#[kani::proof]
#[kani::unwind(4)]
#[kani::stub(std::time::Instant::now, clock::mock_now)]
fn c08_node_token_returns_stored_token() {
    let has: bool = kani::any();
    let n = node(2, has);
    let t = n.token();
    assert!(t.is_some() == has);
    if let Some(t) = &t {
        assert!(t.len() == 1 && t[0] == 0x42);
    }
    core::mem::forget(t);
    core::mem::forget(n);
}

macro_rules! start_case {
    ($name:ident, $n:expr, $t0:expr, $t1:expr, $t2:expr, $extra:expr) => {
        #[kani::proof]
        #[kani::unwind(4)]
        #[kani::stub(crate::actor::socket::KrpcSocket::request, stub_request)]
        #[kani::stub(std::time::Instant::now, clock::mock_now)]
        #[kani::stub(crate::common::id::Id::random, id_const)]
        #[kani::stub(crate::common::node::Node::token, stub_token)]
        fn $name() {
            start_pattern($n, [$t0, $t1, $t2], $extra)
        }
    };
}
// token patterns: 1 closest node x (no extra | token-less extra | token-bearing extra), and two
// closest nodes with different tokens (CBMC cost grows steeply per loop iteration: 1 node 41 s /
// 0.9 GB, 3 nodes > 24 GB)
start_case!(c08_start_1closest_token_noextra, 1, true, false, false, false);
start_case!(c08_start_1closest_notoken_noextra, 1, false, false, false, false);
start_case!(c08_start_1closest_token_extra_tokenless, 1, true, false, false, true);
start_case!(c08_start_1closest_notoken_extra_token, 1, false, false, true, true);
start_case!(c08_start_1closest_token_extra_token, 1, true, false, true, true);
start_case!(c08_start_2closest_second_has_token, 2, false, true, false, false);
start_case!(c08_start_2closest_both_tokens, 2, true, true, false, false);

/// start() with no closest nodes at all: NoClosestNodes, nothing sent, not started.
#[kani::proof]
#[kani::unwind(6)]
#[kani::stub(crate::actor::socket::KrpcSocket::request, stub_request)]
#[kani::stub(std::time::Instant::now, clock::mock_now)]
#[kani::stub(crate::common::id::Id::random, id_const)]
fn c08_start_without_nodes_is_an_error() {
    let mut q = PutQuery::new(request_of_kind(1), None);
    let mut sock = idle_socket();
    unsafe { SENT_N = 0 };
    let r = q.start(&mut sock, &[]);
    assert!(matches!(r, Err(PutError::Query(PutQueryError::NoClosestNodes))));
    assert!(unsafe { SENT_N } == 0 && !q.started());
    core::mem::forget(r);
    core::mem::forget(q);
    core::mem::forget(sock);
}
