// Kani harness module for src/core/handle_request.rs (child `verif_kani`). Property C18 (and the
// per-call mechanisms of C13): what Core does with an incoming request in each mode.
//
// Server::handle_request, RoutingTable::{add, reset_id} are replaced by recording stubs (their own
// contracts: C03/C04, C12); Id::is_valid_for_ip by the fixed predicate; Id::from_ipv4 by a constant
// id that the predicate accepts for every ip whose last octet is even.
use super::*;
use crate::common::{FindNodeRequestArguments, GetValueRequestArguments, PingResponseArguments, ResponseSpecific, RoutingTable, ID_SIZE};
use crate::core::server::Server;
use crate::core::verif_kani::{core, id1};

include!("/verif/harness/support.rs");

static mut SERVER_CALLS: u32 = 0;
static mut SERVER_REPLIES: u8 = 1; // 0 = None, 1 = a response, 2 = an error
static mut ADD_CALLS: u32 = 0;
static mut ADD_ID0: u8 = 0;
static mut ADD_IP: u32 = 0;
static mut RESET_CALLS: u32 = 0;
static mut RESET_ID19: u8 = 0;

fn stub_server_handle_request(_s: &mut Server, rt: &RoutingTable, _srt: &RoutingTable, _from: SocketAddrV4, request: RequestSpecific) -> Option<MessageType> {
    unsafe { SERVER_CALLS += 1 };
    core::mem::forget(request);
    match unsafe { SERVER_REPLIES } {
        0 => None,
        1 => Some(MessageType::Response(ResponseSpecific::Ping(PingResponseArguments { responder_id: *rt.id() }))),
        _ => Some(MessageType::Error(crate::common::ErrorSpecific { code: 203, description: String::new() })),
    }
}
fn stub_add(_t: &mut RoutingTable, node: Node) -> bool {
    unsafe {
        ADD_CALLS += 1;
        ADD_ID0 = node.id().as_bytes()[0];
        ADD_IP = node.address().ip().to_bits();
    }
    core::mem::forget(node);
    true
}
fn stub_reset_id(_t: &mut RoutingTable, id: Id) {
    unsafe {
        RESET_CALLS += 1;
        RESET_ID19 = id.as_bytes()[ID_SIZE - 1];
    }
}
fn stub_valid(id: &Id, ip: std::net::Ipv4Addr) -> bool {
    (id.as_bytes()[19] ^ ip.octets()[3]) & 1 == 1
}
fn stub_from_ipv4(ip: std::net::Ipv4Addr) -> Id {
    // an id the predicate accepts for this ip
    let mut x = [9u8; ID_SIZE];
    x[19] = (ip.octets()[3] & 1) ^ 1;
    Id::from(x)
}
fn fill_const(dest: &mut [u8]) -> Result<(), getrandom::Error> {
    let mut i = 0usize;
    while i < dest.len() {
        dest[i] = 3;
        i += 1;
    }
    Ok(())
}

fn request_of(kind: u8, target: Id) -> RequestSpecific {
    let rt = match kind {
        0 => RequestTypeSpecific::Ping,
        1 => RequestTypeSpecific::FindNode(FindNodeRequestArguments { target }),
        2 => RequestTypeSpecific::GetPeers(crate::common::GetPeersRequestArguments { info_hash: target }),
        3 => RequestTypeSpecific::GetSignedPeers(crate::common::GetPeersRequestArguments { info_hash: target }),
        4 => RequestTypeSpecific::GetValue(GetValueRequestArguments { target, seq: None, salt: None }),
        _ => RequestTypeSpecific::Put(crate::common::PutRequest {
            token: Box::new([1]),
            put_request_type: crate::common::PutRequestSpecific::PutImmutable(crate::common::PutImmutableRequestArguments { target, v: Box::new([1]) }),
        }),
    };
    RequestSpecific { requester_id: id1(0x33), request_type: rt }
}

macro_rules! core_harness {
    (fn $name:ident() $body:block) => {
        #[kani::proof]
        #[kani::unwind(22)]
        #[kani::stub(std::time::Instant::now, clock::mock_now)]
        #[kani::stub(getrandom::fill, fill_const)]
        #[kani::stub(Server::handle_request, stub_server_handle_request)]
        #[kani::stub(RoutingTable::add, stub_add)]
        #[kani::stub(RoutingTable::reset_id, stub_reset_id)]
        #[kani::stub(Id::is_valid_for_ip, stub_valid)]
        #[kani::stub(Id::from_ipv4, stub_from_ipv4)]
        fn $name() $body
    };
}

core_harness! {
fn c18_client_mode_never_replies_never_stores_never_learns() {
    let mut c = core(false);
    let kind: u8 = kani::any();
    kani::assume(kind < 6);
    unsafe { SERVER_REPLIES = kani::any::<u8>() % 3 };
    let ro: bool = kani::any();
    let version: Option<[u8; 4]> = if kani::any() { Some(crate::core::VERSION) } else { None };
    if kani::any() {
        c.bootstrap = Box::new([SocketAddrV4::new(1u32.into(), 1)]);
    }
    let from = SocketAddrV4::new(kani::any::<u32>().into(), kani::any());
    let (reply, _) = c.handle_request(from, ro, version, request_of(kind, id1(0x44)));
    assert!(reply.is_none(), "C18: a client-mode node never replies to any request");
    assert!(unsafe { SERVER_CALLS } == 0, "C18: ... and never hands the request to the storage server (never stores data)");
    assert!(unsafe { ADD_CALLS } == 0, "C18: ... and never inserts requesters into its routing tables");
    kani::cover!(kind == 5);
    kani::cover!(kind == 1 && !ro);
    core::mem::forget(c);
}
}

core_harness! {
fn c18_server_mode_replies_and_never_learns_read_only_requesters() {
    let mut c = core(true);
    let kind: u8 = kani::any();
    kani::assume(kind < 6);
    let replies: u8 = kani::any::<u8>() % 3;
    unsafe { SERVER_REPLIES = replies };
    let ro: bool = kani::any();
    let signed: bool = kani::any();
    let version: Option<[u8; 4]> = if signed { Some(crate::core::VERSION) } else if kani::any() { Some([82, 83, 0, 5]) } else { None };
    let has_bootstrap: bool = kani::any();
    if has_bootstrap {
        c.bootstrap = Box::new([SocketAddrV4::new(1u32.into(), 1)]);
    }
    let from = SocketAddrV4::new(kani::any::<u32>().into(), kani::any());
    let (reply, repop) = c.handle_request(from, ro, version, request_of(kind, id1(0x44)));
    assert!(unsafe { SERVER_CALLS } == 1, "a server hands every request to the storage server");
    assert!(reply.is_some() == (replies != 0), "and forwards its reply or error");
    assert!(!repop);
    let adds = unsafe { ADD_CALLS };
    if ro {
        assert!(adds == 0, "C18: servers never insert read-only requesters into their routing tables");
    }
    // the only requesters ever learned from a request: find_node senders, into the basic table only
    // when this node has no bootstrap nodes (first node of a network), into the signed-peers table
    // when their version supports it
    let want = if !ro && kind == 1 { (if !has_bootstrap { 1 } else { 0 }) + (if signed { 1 } else { 0 }) } else { 0 };
    assert!(adds == want, "C18/C13: requesters are learned only from non-read-only find_node requests");
    if adds > 0 {
        assert!(unsafe { ADD_ID0 } == 0x44 && unsafe { ADD_IP } == from.ip().to_bits());
    }
    kani::cover!(adds == 2);
    kani::cover!(adds == 0 && kind == 1 && ro);
    core::mem::forget(reply);
    core::mem::forget(c);
}
}

core_harness! {
fn c18_self_ping_confirms_the_public_address() {
    let server_mode: bool = kani::any();
    let mut c = core(server_mode);
    let ip: u32 = kani::any();
    let port: u16 = kani::any();
    let our = SocketAddrV4::new(ip.into(), port);
    let has_public: bool = kani::any();
    c.public_address = if has_public { Some(our) } else { None };
    c.firewalled = true;
    let from = if kani::any() { our } else { SocketAddrV4::new(kani::any::<u32>().into(), kani::any()) };
    let kind: u8 = kani::any();
    kani::assume(kind < 2);
    // the table id: last byte decides whether it is "valid" for our ip under the fixed predicate
    let (_, repop) = c.handle_request(from, kani::any(), None, request_of(kind, id1(0x44)));
    let confirmed = has_public && from == our && kind == 0;
    assert!(c.firewalled == !confirmed, "C18: a ping from the node's own reported address (and nothing else) clears the firewalled flag");
    let id_ok = (7u8 ^ our.ip().octets()[3]) & 1 == 1; // the table id is EE 07 07 ..: last byte 7
    if confirmed && !id_ok {
        assert!(repop && unsafe { RESET_CALLS } == 2, "both routing tables are re-keyed to an id valid for the confirmed address");
        assert!((unsafe { RESET_ID19 } ^ our.ip().octets()[3]) & 1 == 1);
    } else {
        assert!(!repop && unsafe { RESET_CALLS } == 0);
    }
    assert!(c.public_address == if has_public { Some(our) } else { None });
    kani::cover!(confirmed && id_ok);
    kani::cover!(confirmed && !id_ok);
    kani::cover!(!confirmed && has_public && kind == 0);
    core::mem::forget(c);
}
}
