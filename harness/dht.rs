// Kani harnesses for the fold inside Dht::get_mutable_most_recent (src/dht.rs) and
// AsyncDht::get_mutable_most_recent (src/dht/async_dht.rs). Property C16.
//
// The folds cannot be called without a live actor thread and a channel, so this is the one place
// where text is EXTRACTED: on every run the driver cuts the statements between the loop header
// (`for item in iter {` / `while let Some(item) = stream.next().await {`) and its matching `}`
// out of both files, verbatim, and wraps them as
//     fn step_x(mut most_recent: Option<MutableItem>, item: MutableItem) -> Option<MutableItem> { <body> most_recent }
// in $VERIF_GEN/c16_steps.rs. Dropped by the extraction: the loop header and the channel/stream.
use super::*;
use crate::common::PutMutableRequestArguments;

mod spec {
    include!("/verif/spec/pick.rs");
}

include!(concat!(env!("VERIF_GEN"), "/c16_steps.rs"));

/// An item with the given seq and a value of 0..=2 symbolic bytes (no hashing, no signing).
fn item(seq: i64, len: usize, b: [u8; 2]) -> MutableItem {
    let v: Box<[u8]> = if len == 0 { Box::new([]) } else if len == 1 { Box::new([b[0]]) } else { Box::new([b[0], b[1]]) };
    MutableItem::from(PutMutableRequestArguments {
        target: Id::from([0u8; 20]),
        v,
        k: [0u8; 32],
        seq,
        sig: [0u8; 64],
        salt: None,
        cas: None,
    })
}

/// lexicographic order on byte strings of length <= 2, written out
fn value_greater(al: usize, a: [u8; 2], bl: usize, b: [u8; 2]) -> bool {
    if al == 0 {
        false
    } else if bl == 0 {
        true
    } else if a[0] != b[0] {
        a[0] > b[0]
    } else if al == 1 {
        false
    } else if bl == 1 {
        true
    } else {
        a[1] > b[1]
    }
}

fn check_step(step: fn(Option<MutableItem>, MutableItem) -> Option<MutableItem>) {
    let has_best: bool = kani::any();
    let (bs, bl, bb): (i64, usize, [u8; 2]) = (kani::any(), kani::any(), kani::any());
    let (is, il, ib): (i64, usize, [u8; 2]) = (kani::any(), kani::any(), kani::any());
    kani::assume(bl <= 2 && il <= 2);
    let best = if has_best { Some(item(bs, bl, bb)) } else { None };
    let out = step(best, item(is, il, ib));
    let takes = spec::pick_takes_new(has_best, bs, is, has_best && value_greater(il, ib, bl, bb));
    let (ws, wl, wb) = if takes { (is, il, ib) } else { (bs, bl, bb) };
    match &out {
        None => assert!(false, "a delivered item must never be lost"),
        Some(o) => {
            assert!(o.seq() == ws);
            assert!(o.value().len() == wl);
            assert!(wl < 1 || o.value()[0] == wb[0]);
            assert!(wl < 2 || o.value()[1] == wb[1]);
        }
    }
    kani::cover!(has_best && is > bs && takes);
    kani::cover!(has_best && is == bs && takes);
    kani::cover!(has_best && is == bs && !takes && il == 2 && bl == 2);
    kani::cover!(has_best && is < bs);
    kani::cover!(!has_best);
    core::mem::forget(out);
}

#[kani::proof]
#[kani::unwind(4)]
fn c16_sync_fold_step_refines_pick() {
    check_step(step_sync);
}

#[kani::proof]
#[kani::unwind(4)]
fn c16_async_fold_step_refines_pick() {
    check_step(step_async);
}

// ---------------------------------------------------------------------------------------------
// Whole-function variant (bounded): the complete body of Dht::get_mutable_most_recent, extracted on
// every run with the one expression `self.get_mutable(public_key, salt, None)` replaced by
// `items.into_iter()`. Independent of how the fold is written (loop, iterator adapter, ...).
// ---------------------------------------------------------------------------------------------
include!(concat!(env!("VERIF_GEN"), "/c16_whole.rs"));

#[kani::proof]
#[kani::unwind(6)]
fn c16_sync_whole_function_returns_the_maximum() {
    let s: [i64; 2] = kani::any();
    let v: [u8; 2] = kani::any();
    let items = vec![item(s[0], 1, [v[0], 0]), item(s[1], 1, [v[1], 0])];
    let out = whole_sync(items);
    let second = s[1] > s[0] || (s[1] == s[0] && v[1] > v[0]);
    let (ws, wv) = if second { (s[1], v[1]) } else { (s[0], v[0]) };
    match &out {
        Some(o) => assert!(o.seq() == ws && o.value().len() == 1 && o.value()[0] == wv,
            "C16: the item with the highest seq, ties broken by the greater value, whatever the arrival order"),
        None => assert!(false, "C16: None only if nothing was delivered"),
    }
    kani::cover!(s[0] == s[1] && v[0] > v[1], "tie on seq decided by value, first arrival wins");
    kani::cover!(s[1] > s[0], "ascending arrival");
    core::mem::forget(out);
}

#[kani::proof]
#[kani::unwind(6)]
fn c16_sync_whole_function_none_iff_nothing_delivered() {
    let out = whole_sync(Vec::new());
    assert!(out.is_none(), "C16: None iff nothing was delivered");
    let one = whole_sync(vec![item(kani::any(), 1, [kani::any(), 0])]);
    assert!(one.is_some());
    core::mem::forget(one);
}
